//! C06 — a word is reported misspelt exactly when the dictionary does not contain it.

use crate::pool::par_chunks;
use crate::spaces::Gen;
use crate::sweep::DIALECTS;
use crate::util::*;
use harper_core::linting::{Lint, LintGroup, LintKind, Linter, Suggestion};
use harper_core::{Dialect, Dictionary, Document, FstDictionary};
use serde_json::{Value, json};
use std::collections::BTreeSet;
use std::sync::Arc;

fn spell_only(d: Dialect, dict: Arc<impl Dictionary + 'static>) -> LintGroup {
    let mut g = LintGroup::new_curated(dict, d);
    g.set_all_rules_to(Some(false));
    g.config.set_rule_enabled("SpellCheck", true);
    g
}

#[derive(PartialEq, Eq, Clone, Copy, Debug)]
enum WordClass {
    /// letters with at most one inner apostrophe: one lexical word
    Lexical,
    /// contains blank, hyphen, period, digit, '+', ';' ...: the lexer splits it (finding F22)
    NotOneWord,
    /// two or more apostrophes: contraction condensing joins only one (finding F23)
    MultiApostrophe,
}

fn classify(w: &[char]) -> WordClass {
    let apos = w.iter().filter(|c| **c == '\'' || **c == '’').count();
    use unicode_script::{Script, UnicodeScript};
    // "Latin-alphabet word": Latin-script letters, with apostrophes inside
    let only_letters = w
        .iter()
        .all(|c| (c.is_alphabetic() && c.script() == Script::Latin) || *c == '\'' || *c == '’');
    let edge_apos = matches!(w.first(), Some('\'') | Some('’')) || matches!(w.last(), Some('\'') | Some('’'));
    if !only_letters || edge_apos || w.is_empty() {
        WordClass::NotOneWord
    } else if apos >= 2 {
        WordClass::MultiApostrophe
    } else {
        WordClass::Lexical
    }
}

struct Frame {
    name: &'static str,
    pre: &'static str,
    post: &'static str,
}

const FRAMES: &[Frame] = &[
    Frame { name: "alone", pre: "", post: "" },
    Frame { name: "period", pre: "", post: "." },
    Frame { name: "the-w-is", pre: "The ", post: " is" },
    Frame { name: "question", pre: "Is it ", post: "?" },
    Frame { name: "parens", pre: "(", post: ")" },
    Frame { name: "quotes", pre: "“", post: "”" },
    Frame { name: "after-multibyte", pre: "É😀 ", post: "," },
];

fn spelling_lints_on(lints: &[Lint], s: usize, e: usize) -> Vec<&Lint> {
    lints
        .iter()
        .filter(|l| l.lint_kind == LintKind::Spelling && l.span.start < e && s < l.span.end)
        .collect()
}

fn check_suggestions(l: &Lint, dict: &FstDictionary, dialect: Dialect) -> Option<(String, Value)> {
    for s in &l.suggestions {
        let Suggestion::ReplaceWith(r) = s else {
            return Some(("suggestion-not-a-replacement".into(), json!({"suggestion": s.to_string()})));
        };
        let mut low_first = r.clone();
        if let Some(f) = low_first.first_mut() {
            *f = f.to_lowercase().next().unwrap_or(*f);
        }
        if !(dict.contains_exact_word(r) || dict.contains_exact_word(&low_first)) {
            return Some(("suggestion-not-a-dictionary-word".into(), json!({"suggestion": c2s(r)})));
        }
        let md = dict.get_word_metadata(r);
        if let Some(md) = md {
            if let Some(d) = md.dialect {
                if d != dialect {
                    return Some(("suggestion-from-other-dialect".into(), json!({"suggestion": c2s(r), "its_dialect": format!("{d:?}"), "active": format!("{dialect:?}")})));
                }
            }
        }
    }
    None
}

pub fn run(tier: Tier) -> i32 {
    let mut report = Report::new("C06", tier, "exploration");
    report.set("rule", "positive: every word of FstDictionary::curated().words_iter() that is one lexical word x 4 dialects (skipping dialects the entry is excluded from) x frames (alone, before a period, mid-sentence, in a question, parenthesised, curly-quoted, behind multi-byte text; Capitalised and UPPER forms of lower-case entries) with only SpellCheck enabled must produce no Spelling lint on the word; negative: every a-z string up to the length bound and every single-deletion variant of short dictionary words that the dictionary lacks under any capitalisation must produce exactly one Spelling lint covering exactly the word, whose suggestions are dictionary words of the active dialect. Non-trivial = the case reached the spell checker's accept/reject decision for the word under test (all do) and, for the distinct count, negative cases (a lint was due)");
    let dict = FstDictionary::curated();
    let mut words: Vec<Vec<char>> = dict.words_iter().map(|w| w.to_vec()).collect();
    words.sort();
    let n = words.len() as u64;
    if n < 100_000 {
        report.machinery(format!("curated dictionary has only {n} words"));
    }
    report.set("dictionary_words", n);

    // ------------------------------------------------------------------ positive side
    let res = par_chunks(n, 1500, ncpu(), |s, e| {
        let mut groups: Vec<LintGroup> = DIALECTS.iter().map(|d| spell_only(*d, dict.clone())).collect();
        let mut viols: Vec<Violation> = vec![];
        let mut evals = 0u64;
        let mut classes = [0u64; 3];
        let mut skipped_dialect = 0u64;
        for wi in s..e {
            let w = &words[wi as usize];
            let class = classify(w);
            classes[class as usize] += 1;
            let md = dict.get_word_metadata(w).cloned();
            let all_lower = w.iter().all(|c| !c.is_uppercase());
            let mut forms: Vec<(&str, Vec<char>)> = vec![("listed", w.clone())];
            if all_lower && class == WordClass::Lexical {
                let mut cap = w.clone();
                let up: Vec<char> = cap[0].to_uppercase().collect();
                if up.len() == 1 {
                    cap[0] = up[0];
                    forms.push(("Capitalised", cap));
                }
                let upper: Vec<char> = w.iter().flat_map(|c| c.to_uppercase()).collect();
                if upper.len() == w.len() {
                    forms.push(("UPPER", upper));
                }
            }
            // the same forms written with a typographic apostrophe
            let curly: Vec<(&str, Vec<char>)> = forms
                .iter()
                .filter(|(_, f)| f.contains(&'\''))
                .map(|(n, f)| {
                    let name = match *n { "listed" => "listed-curly", "Capitalised" => "Capitalised-curly", _ => "UPPER-curly" };
                    (name, f.iter().map(|c| if *c == '\'' { '’' } else { *c }).collect::<Vec<char>>())
                })
                .collect();
            if class == WordClass::Lexical {
                forms.extend(curly);
            }
            // a listed word with capitals right after its own lower-cased form in the same document
            let low: Vec<char> = w.iter().flat_map(|c| c.to_lowercase()).collect();
            let after_lower = class == WordClass::Lexical && low != *w && low.len() == w.len();
            for (di, d) in DIALECTS.iter().enumerate() {
                if let Some(md) = &md {
                    if md.dialect.is_some_and(|wd| wd != *d) {
                        skipped_dialect += 1;
                        continue;
                    }
                }
                if after_lower && di == 0 {
                    evals += 1;
                    let text = format!("{} and {}.", c2s(&low), c2s(w));
                    let ws = low.len() + 5;
                    if let Ok(lints) = catch(|| {
                        let doc = Document::new_plain_english(&text, &*dict);
                        groups[di].lint(&doc)
                    }) {
                        if !spelling_lints_on(&lints, ws, ws + w.len()).is_empty() && viols.iter().filter(|v| v.sig.starts_with("listed-word-flagged:after")).count() < 4 {
                            viols.push(Violation { sig: "listed-word-flagged:after-its-own-lower-cased-form".into(), case: json!({"engine":"E1","text": text, "word": c2s(w), "dialect": format!("{d:?}"), "frame": "lower-and-listed"}), detail: json!({}) });
                        }
                    } else {
                        groups[di] = spell_only(*d, dict.clone());
                    }
                }
                for (fname, form) in &forms {
                    let frames: &[Frame] = if *fname == "listed" { FRAMES } else { &FRAMES[..3] };
                    for fr in frames {
                        evals += 1;
                        let text = format!("{}{}{}", fr.pre, c2s(form), fr.post);
                        let ws = fr.pre.chars().count();
                        let we = ws + form.len();
                        let r = catch(|| {
                            let doc = Document::new_plain_english(&text, &*dict);
                            groups[di].lint(&doc)
                        });
                        let lints = match r {
                            Ok(l) => l,
                            Err(_) => {
                                groups[di] = spell_only(*d, dict.clone());
                                continue;
                            }
                        };
                        let hits = spelling_lints_on(&lints, ws, we);
                        if !hits.is_empty() {
                            let cls = match class {
                                WordClass::Lexical => "listed-word-flagged",
                                WordClass::NotOneWord => "listed-entry-that-is-not-one-lexical-word-flagged",
                                WordClass::MultiApostrophe => "listed-entry-with-two-apostrophes-flagged",
                            };
                            let keep = viols.iter().filter(|v| v.sig.starts_with(cls)).count() < 4;
                            if keep {
                                viols.push(Violation {
                                    sig: format!("{cls}:{fname}"),
                                    case: json!({"engine":"E1","text": text, "word": c2s(w), "dialect": format!("{d:?}"), "frame": fr.name, "form": fname}),
                                    detail: json!({"lints": hits.iter().map(|l| crate::sweep::lint_json(l)).collect::<Vec<_>>()}),
                                });
                            } else {
                                viols.push(Violation { sig: format!("{cls}:{fname}"), case: json!({"engine":"E1","text": text, "word": c2s(w), "dialect": format!("{d:?}"), "frame": fr.name, "form": fname, "_": "further case"}), detail: json!({}) });
                            }
                        }
                    }
                }
            }
        }
        (evals, classes, skipped_dialect, viols)
    });
    let mut classes = [0u64; 3];
    for (e, c, sd, vs) in res {
        report.add("evaluations", e);
        report.add("positive_cases", e);
        report.add("dialect_excluded_entries_skipped", sd);
        for i in 0..3 {
            classes[i] += c[i];
        }
        for v in vs {
            report.violation(v);
        }
    }
    report.set("entries_one_lexical_word", classes[0]);
    report.set("entries_not_one_lexical_word", classes[1]);
    report.set("entries_with_two_apostrophes", classes[2]);

    // ------------------------------------------------------------------ negative side
    let g = Gen::Strings {
        atoms: "abcdefghijklmnopqrstuvwxyz".chars().map(|c| c.to_string()).collect(),
        max_len: tier.pick(3, 4),
    };
    let mut nonwords: BTreeSet<String> = BTreeSet::new();
    for i in 1..g.len() {
        let s = g.get(i);
        if !dict.contains_word_str(&s) {
            nonwords.insert(s);
        }
    }
    // single-deletion variants of the shortest lexical dictionary words
    let mut short: Vec<&Vec<char>> = words
        .iter()
        .filter(|w| classify(w) == WordClass::Lexical && w.iter().all(|c| c.is_ascii_lowercase()) && w.len() >= 4)
        .collect();
    short.sort_by_key(|w| (w.len(), (*w).clone()));
    for w in short.iter().take(tier.pick(400, 2000)) {
        for d in 0..w.len() {
            let mut v = (*w).clone();
            v.remove(d);
            let s = c2s(&v);
            if !dict.contains_word_str(&s) {
                nonwords.insert(s);
            }
        }
    }
    let nonwords: Vec<String> = nonwords.into_iter().collect();
    let nn = nonwords.len() as u64;
    report.set("non_words", nn);
    let res = par_chunks(nn, 200, ncpu(), |s, e| {
        let mut groups: Vec<LintGroup> = DIALECTS.iter().map(|d| spell_only(*d, dict.clone())).collect();
        let mut viols: Vec<Violation> = vec![];
        let mut evals = 0u64;
        for i in s..e {
            let w = &nonwords[i as usize];
            let wl = w.chars().count();
            // dialect 0 in two frames; the other dialects alone (suggestion dialect filter)
            let plan: Vec<(usize, &Frame)> = vec![(0, &FRAMES[0]), (0, &FRAMES[2]), (0, &FRAMES[6]), (1, &FRAMES[0]), (2, &FRAMES[0]), (3, &FRAMES[0])];
            for (di, fr) in plan {
                evals += 1;
                let text = format!("{}{}{}", fr.pre, w, fr.post);
                let ws = fr.pre.chars().count();
                let we = ws + wl;
                let r = catch(|| {
                    let doc = Document::new_plain_english(&text, &*dict);
                    groups[di].lint(&doc)
                });
                let Ok(lints) = r else {
                    groups[di] = spell_only(DIALECTS[di], dict.clone());
                    continue;
                };
                let hits = spelling_lints_on(&lints, ws, we);
                let mut problem: Option<(String, Value)> = None;
                if hits.len() != 1 {
                    problem = Some(("non-word-not-reported-exactly-once".into(), json!({"lints": hits.len()})));
                } else if (hits[0].span.start, hits[0].span.end) != (ws, we) {
                    problem = Some(("non-word-span-not-the-word".into(), json!({"span": [hits[0].span.start, hits[0].span.end], "word": [ws, we]})));
                } else if let Some(p) = check_suggestions(hits[0], &dict, DIALECTS[di]) {
                    problem = Some(p);
                }
                if let Some((sig, detail)) = problem {
                    if viols.len() < 8 {
                        viols.push(Violation {
                            sig,
                            case: json!({"engine":"E1","text": text, "word": w, "dialect": format!("{:?}", DIALECTS[di]), "frame": fr.name}),
                            detail,
                        });
                    }
                }
            }
        }
        (evals, viols)
    });
    for (e, vs) in res {
        report.add("evaluations", e);
        report.add("distinct_nontrivial", e);
        report.add("negative_cases", e);
        for v in vs {
            report.violation(v);
        }
    }
    // ------------------------------------------------------------------ capitalised misspellings of
    // entries with inner capitals (JavaScript, McDonald's, NASA): whatever is suggested must be a
    // dictionary word as listed; and non-words so far from everything that nothing is suggested,
    // occurring twice in one document and again in a second document on the same linter
    {
        let mut cases: Vec<String> = vec![];
        for w in words.iter().filter(|w| classify(w) == WordClass::Lexical && w.len() >= 4 && w[1..].iter().any(|c| c.is_uppercase())).take(tier.pick(1500, 100000)) {
            let mut rest_low: Vec<char> = vec![w[0]];
            rest_low.extend(w[1..].iter().flat_map(|c| c.to_lowercase()));
            cases.push(c2s(&rest_low));
            for d in 1..w.len() {
                let mut v = w.clone();
                v.remove(d);
                cases.push(c2s(&v));
                let mut v2 = rest_low.clone();
                if d < v2.len() {
                    v2.remove(d);
                    cases.push(c2s(&v2));
                }
            }
        }
        cases.sort();
        cases.dedup();
        let nc = cases.len() as u64;
        let res = par_chunks(nc, 200, ncpu(), |s, e| {
            let mut group = spell_only(Dialect::American, dict.clone());
            let mut viols: Vec<Violation> = vec![];
            let mut evals = 0u64;
            for i in s..e {
                let w = &cases[i as usize];
                evals += 1;
                let text = format!("The {w} is");
                let Ok(lints) = catch(|| {
                    let doc = Document::new_plain_english(&text, &*dict);
                    group.lint(&doc)
                }) else {
                    group = spell_only(Dialect::American, dict.clone());
                    continue;
                };
                for l in spelling_lints_on(&lints, 4, 4 + w.chars().count()) {
                    if let Some((sig, detail)) = check_suggestions(l, &dict, Dialect::American) {
                        if viols.len() < 6 {
                            viols.push(Violation { sig: format!("capitalised-misspelling:{sig}"), case: json!({"engine":"E1","text": text, "word": w}), detail });
                        }
                    }
                }
            }
            (evals, viols)
        });
        for (e, vs) in res {
            report.add("evaluations", e);
            report.add("capitalised_misspelling_cases", e);
            for v in vs {
                report.violation(v);
            }
        }
        // far-away non-words, twice
        let far = ["Donaudampfschifffahrt", "qzxvkwpjq", "Xkqzzvvwpq", "zzqxjkvwpqrstlmn"];
        let mut group = spell_only(Dialect::American, dict.clone());
        for w in far {
            if dict.contains_word_str(w) {
                continue;
            }
            let n = w.chars().count();
            let text = format!("The {w} and the {w} again.");
            for round in 0..2 {
                report.add("evaluations", 1);
                let Ok(lints) = catch(|| {
                    let doc = Document::new_plain_english(&text, &*dict);
                    group.lint(&doc)
                }) else { continue };
                let a = spelling_lints_on(&lints, 4, 4 + n);
                let b = spelling_lints_on(&lints, 4 + n + 9, 4 + n + 9 + n);
                let ok = a.len() == 1 && b.len() == 1 && (a[0].span.start, a[0].span.end) == (4, 4 + n) && (b[0].span.start, b[0].span.end) == (4 + n + 9, 4 + 2 * n + 9);
                if !ok {
                    report.violation(Violation { sig: "far-non-word-not-reported-at-every-occurrence".into(), case: json!({"engine":"E1","text": text, "word": w, "lint_call_on_this_linter": round + 1}), detail: json!({"first_occurrence_lints": a.len(), "second_occurrence_lints": b.len()}) });
                }
            }
        }
    }

    // ------------------------------------------------------------------ the product-shaped dictionary
    // curated + user words in a MergedDictionary (as harper-ls, harper-cli and harper.js build it).
    // User words: the lower-cased form of curated entries that are listed only with capitals
    // (`markdown` next to `Markdown`, `nasa` next to `NASA`) and two fresh words.
    {
        use harper_core::{MergedDictionary, MutableDictionary, WordMetadata};
        let mut only_cap: Vec<(Vec<char>, Vec<char>)> = vec![];
        for w in &words {
            if classify(w) != WordClass::Lexical || !w.iter().any(|c| c.is_uppercase()) {
                continue;
            }
            let low: Vec<char> = w.iter().flat_map(|c| c.to_lowercase()).collect();
            if low.len() == w.len() && !dict.contains_exact_word(&low) {
                only_cap.push((w.clone(), low));
            }
        }
        only_cap.sort_by_key(|(w, _)| (w.len(), w.clone()));
        only_cap.dedup_by(|a, b| a.1 == b.1);
        only_cap.truncate(tier.pick(600, 6000));
        let mut user = MutableDictionary::new();
        for (_, low) in &only_cap {
            user.append_word(low.clone(), WordMetadata::default());
        }
        for fresh in ["tset", "qzxv"] {
            user.append_word(fresh.chars().collect::<Vec<_>>(), WordMetadata::default());
        }
        let mut merged = MergedDictionary::new();
        merged.add_dictionary(dict.clone());
        merged.add_dictionary(Arc::new(user));
        let merged = Arc::new(merged);
        let mut cases: Vec<(String, bool)> = vec![]; // (word, must be accepted)
        for (cap, low) in &only_cap {
            cases.push((low.iter().collect(), true));
            cases.push((cap.iter().collect(), true));
        }
        cases.push(("tset".into(), true));
        cases.push(("qzxv".into(), true));
        for w in nonwords.iter().filter(|w| w.len() >= 3).take(tier.pick(300, 3000)) {
            if !merged.contains_word_str(w) {
                cases.push((w.clone(), false));
            }
        }
        let nc = cases.len() as u64;
        let res = par_chunks(nc, 100, ncpu(), |s, e| {
            let mut group = spell_only(Dialect::American, merged.clone());
            let mut viols: Vec<Violation> = vec![];
            let mut evals = 0u64;
            for i in s..e {
                let (w, accept) = &cases[i as usize];
                let wl = w.chars().count();
                for fr in [&FRAMES[0], &FRAMES[2]] {
                    evals += 1;
                    let text = format!("{}{}{}", fr.pre, w, fr.post);
                    let ws = fr.pre.chars().count();
                    let r = catch(|| {
                        let doc = Document::new_plain_english(&text, &*merged);
                        group.lint(&doc)
                    });
                    let Ok(lints) = r else {
                        group = spell_only(Dialect::American, merged.clone());
                        continue;
                    };
                    let hits = spelling_lints_on(&lints, ws, ws + wl).len();
                    let sig = if *accept && hits > 0 {
                        "merged:listed-word-reported"
                    } else if !*accept && hits != 1 {
                        "merged:non-word-not-reported-exactly-once"
                    } else {
                        continue;
                    };
                    if viols.len() < 6 {
                        viols.push(Violation { sig: sig.into(), case: json!({"engine":"E1","dictionary":"curated + user words (MergedDictionary)","text": text, "word": w, "frame": fr.name}), detail: json!({"spelling_lints_on_word": hits}) });
                    }
                }
            }
            (evals, viols)
        });
        for (e, vs) in res {
            report.add("evaluations", e);
            report.add("merged_dictionary_cases", e);
            for v in vs {
                report.violation(v);
            }
        }
    }
    report.outcomes.insert(0);
    report.outcomes.insert(1);
    report.sample(json!({"engine":"E1","text":"Is it colour?","word":"colour","dialect":"British","frame":"question","form":"listed"}));
    report.sample(json!({"engine":"E1","text":"The qzx is","word":"qzx","dialect":"American","frame":"the-w-is"}));
    report.set("exhaustive", true);
    report.assume("'at random positions in random sentences' is replaced by all dictionary words in all of a fixed set of context frames");
    report.assume("negative side bounded to a-z strings up to the length bound plus single-deletion variants of short words");
    report.finish()
}
