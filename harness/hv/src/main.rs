fn main() { println!("hv"); }
