//! hv — bounded exhaustive exploration of harper (see /verif/DESIGN.md).
#![allow(dead_code)]
#![allow(clippy::all)]

// harper-ls is a bin-only crate: its modules are compiled into the harness under the same root
// module names so that `crate::config::Config` etc. resolve unchanged.
#[path = "/repo/harper-ls/src/backend.rs"]
mod backend;
#[path = "/repo/harper-ls/src/config.rs"]
mod config;
#[path = "/repo/harper-ls/src/diagnostics.rs"]
mod diagnostics;
#[path = "/repo/harper-ls/src/dictionary_io.rs"]
mod dictionary_io;
#[path = "/repo/harper-ls/src/document_state.rs"]
mod document_state;
#[path = "/repo/harper-ls/src/git_commit_parser.rs"]
mod git_commit_parser;
#[path = "/repo/harper-ls/src/pos_conv.rs"]
mod pos_conv;

mod c04;
mod c06;
mod c07;
mod c08;
mod c09;
mod c10;
mod c11;
mod c12;
mod c14;
mod c15;
mod c19;
mod checks;
mod e2;
mod e3;
mod frontends;
mod harvest;
mod pool;
mod small;
mod spaces;
mod sweep;
mod util;

use util::*;

fn usage() -> ! {
    eprintln!("usage: hv check <ID> [--tier quick|thorough] [--replay <path>]");
    std::process::exit(2)
}

fn main() {
    let args: Vec<String> = std::env::args().collect();
    if args.len() < 2 {
        usage();
    }
    match args[1].as_str() {
        "check" => {
            if args.len() < 3 {
                usage();
            }
            let id = args[2].clone();
            let mut tier = std::env::var("VERIF_TIER")
                .ok()
                .and_then(|t| Tier::parse(&t))
                .unwrap_or(Tier::Quick);
            let mut replay = None;
            let mut i = 3;
            while i < args.len() {
                match args[i].as_str() {
                    "--tier" => {
                        i += 1;
                        tier = args.get(i).and_then(|t| Tier::parse(t)).unwrap_or_else(|| usage());
                    }
                    "--replay" => {
                        i += 1;
                        replay = args.get(i).cloned();
                    }
                    _ => usage(),
                }
                i += 1;
            }
            install_panic_hook();
            let code = match replay {
                Some(p) => checks::replay(&id, &p),
                None => checks::run(&id, tier),
            };
            std::process::exit(code);
        }
        "worker" => {
            // hv worker <job> <tier> [extra...]
            let job = args.get(2).cloned().unwrap_or_default();
            let tier = args.get(3).and_then(|t| Tier::parse(t)).unwrap_or(Tier::Quick);
            let extra: Vec<String> = args.iter().skip(4).cloned().collect();
            std::process::exit(checks::worker(&job, tier, &extra));
        }
        "tokens" => {
            // hv tokens <front-end> <text>   (debug aid)
            use harper_core::parsers::Parser;
            let fes = frontends::all();
            let fe = frontends::by_name(&fes, &args[2]).expect("front-end");
            let text = args[3].replace("\\n", "\n").replace("\\t", "\t");
            let chars: Vec<char> = text.chars().collect();
            let cur = harper_core::FstDictionary::curated();
            let (p, d) = fe.prepare(&chars, &cur);
            println!("raw:");
            for t in p.parse(&chars) {
                println!("  {:?} {:?} {:?}", t.span, sweep::kind_name(&t.kind), chars.get(t.span.start..t.span.end.min(chars.len())).map(|c| c.iter().collect::<String>()));
            }
            let doc = harper_core::Document::new(&text, &p, &d);
            println!("doc:");
            for t in doc.get_tokens() {
                println!("  {:?} {:?} {:?}", t.span, sweep::kind_name(&t.kind), chars.get(t.span.start..t.span.end.min(chars.len())).map(|c| c.iter().collect::<String>()));
            }
            use harper_core::linting::Linter;
            let mut g = sweep::all_on(harper_core::Dialect::American, cur.clone());
            for l in g.lint(&doc) {
                println!("lint: {}", sweep::lint_json(&l));
            }
        }
        "c10-lib-child" => {
            install_panic_hook();
            std::process::exit(c10::lib_child());
        }
        "c10-server-child" => {
            install_panic_hook();
            let d = args.get(2).and_then(|x| x.parse().ok()).unwrap_or(2);
            std::process::exit(c10::server_child(d));
        }
        "c10-real" => {
            let k = args.get(2).and_then(|x| x.parse().ok()).unwrap_or(0);
            let tcp = args.get(3).map(|x| x == "tcp").unwrap_or(false);
            c10::debug_real(k, tcp);
        }
        "c09-debug" => {
            install_panic_hook();
            e3::sandbox_env();
            use c09::Op;
            let prefix = vec![];
            let batch = vec![Op::Open(0, 0), Op::CodeAction(0), Op::Shutdown];
            let choices: Vec<usize> = args.iter().skip(2).filter_map(|x| x.parse().ok()).collect();
            match c09::execute(&prefix, &batch, &choices) {
                Ok((s, w, t, ok)) => println!("ok={ok} widths={w:?}\ntrace={t:?}\nproblems={:?}", s.check_spec()),
                Err(e) => println!("ERR {e}"),
            }
        }
        "time-pump" => {
            // hv time-pump <unit> <n>...
            use harper_core::linting::Linter;
            let unit = args[2].clone();
            let cur = harper_core::FstDictionary::curated();
            let mut g = sweep::all_on(harper_core::Dialect::American, cur.clone());
            for n in args.iter().skip(3).filter_map(|x| x.parse::<usize>().ok()) {
                let text = unit.repeat(n);
                let t0 = std::time::Instant::now();
                let doc = harper_core::Document::new_plain_english_curated(&text);
                let t1 = t0.elapsed().as_secs_f64();
                let l = g.lint(&doc);
                println!("n={n} chars={} tokens={} parse={:.4}s lint={:.4}s lints={}", text.chars().count(), doc.get_tokens().len(), t1, t0.elapsed().as_secs_f64() - t1, l.len());
            }
        }
        "c05-menu" => {
            println!("{}", e2::menu_output());
        }
        "lint-seq" => {
            // debug aid: lint the given texts in order on ONE warm all-default LintGroup
            use harper_core::linting::Linter;
            let dict = e2::product_dict();
            let mut g = harper_core::linting::LintGroup::new_curated(dict.clone(), harper_core::Dialect::American);
            for t in &args[2..] {
                let t = t.replace("\\n", "\n");
                let doc = harper_core::Document::new(&t, &harper_core::parsers::PlainEnglish, &*dict);
                let l = g.lint(&doc);
                println!("{:?} -> {:?}", t, l.iter().map(|x| (x.span.start, x.span.end, x.message.clone())).collect::<Vec<_>>());
            }
        }
        "sizes" => {
            let job = args.get(2).cloned().unwrap_or_default();
            let tier = args.get(3).and_then(|t| Tier::parse(t)).unwrap_or(Tier::Quick);
            let h = harvest::harvest();
            harvest::save(&h);
            if let Some(m) = match job.as_str() { "sweep-C01" => Some(sweep::Mode::C01), "sweep-C02" => Some(sweep::Mode::C02), "sweep-C03" => Some(sweep::Mode::C03), _ => None } {
                let s = sweep::Sweep::new(m, tier, &h);
                for (n, c) in s.space.family_sizes() { println!("{c:>12} {n}"); }
                println!("{:>12} total", s.space.len());
            }
        }
        _ => usage(),
    }
}
