//! C12 — checking two paragraphs together equals checking them separately.

use crate::pool::par_chunks;
use crate::spaces::*;
use crate::sweep::{all_on, lint_json};
use crate::util::*;
use harper_core::linting::{Lint, LintGroup, Linter};
use harper_core::{Dialect, Document, FstDictionary};
use serde_json::{Value, json};
use std::collections::BTreeSet;
use std::sync::Arc;

/// Lint without letting the chunk cache answer: a fresh unknown config key changes the cache key.
pub fn lint_uncached(g: &mut LintGroup, doc: &Document, nonce: &mut u64) -> Vec<Lint> {
    let old = format!("__verif_nonce_{}", *nonce);
    g.config.unset_rule_enabled(&old);
    *nonce += 1;
    g.config.set_rule_enabled(format!("__verif_nonce_{}", *nonce), false);
    g.lint(doc)
}

type Key = (usize, usize, String, String, String, u8);
fn key(l: &Lint, shift: usize) -> Key {
    (
        l.span.start + shift,
        l.span.end + shift,
        format!("{:?}", l.lint_kind),
        l.message.clone(),
        l.suggestions.iter().map(|s| s.to_string()).collect::<Vec<_>>().join("|"),
        l.priority,
    )
}

fn has_dquote(s: &str) -> bool {
    s.contains(['"', '“', '”'])
}

pub fn paragraphs(h: &crate::harvest::Harvest, tier: Tier) -> Vec<String> {
    let mut set: BTreeSet<String> = BTreeSet::new();
    let ends_ok = |s: &str| s.ends_with(['.', '!', '?']);
    for s in &h.seeds {
        if !has_dquote(s) && ends_ok(s) && !s.contains('\n') && s.chars().count() >= 8 {
            set.insert(s.clone());
        }
    }
    // condensing-heavy sentences (contractions, initialisms, ellipses, number suffixes, multi-byte)
    for s in [
        "It isn't what e.g. the N.S.A. wanted...",
        "We met on the 1st, 2nd and 3rd of May etc.",
        "She’s here vs. he's there, et al.",
        "Ünïcödé 😀 text costs $5 in the 1990s.",
        "I can not remember the the name.",
        "There is an apple, a orange and then some.",
        "This is better then that!",
        "Wait... what?",
        "Mr. Smith paid 3.5% at 0x1F.",
        "See https://example.com or mail a@b.co.",
        // addresses whose lexing must not depend on what a later paragraph contains
        "See https://example.com/tset now.",
        "Open http://localhost:8080/tset now.",
        "Write to joe@example.com today.",
        "It costs 3.50 or 1,000 in all.",
    ] {
        set.insert(s.to_string());
    }
    let mut v: Vec<String> = set.into_iter().collect();
    v.sort_by(|a, b| (a.len(), a).cmp(&(b.len(), b)));
    // bound: the shortest N (nothing sampled: the bound is on length rank)
    let cap = tier.pick(80, 400);
    // keep the hand-written heavy ones regardless of length
    let mut out: Vec<String> = v.iter().take(cap).cloned().collect();
    for s in v.iter().skip(cap) {
        if s.contains("N.S.A.") || s.contains("1st") || s.contains("😀") || s.contains("et al") || s.contains("0x1F") || s.contains("://") || s.contains('@') || s.contains("3.50") {
            out.push(s.clone());
        }
    }
    out.into_iter().map(|p| format!("{p}\n\n")).collect()
}

pub fn rests(h: &crate::harvest::Harvest, tier: Tier) -> Vec<String> {
    let mut set: BTreeSet<String> = BTreeSet::new();
    let g1 = Gen::Strings { atoms: sigma_char(), max_len: tier.pick(2, 3) };
    let g1 = if tier == Tier::Quick { Gen::Strings { atoms: sigma_char()[..16].to_vec(), max_len: 2 } } else { g1 };
    for i in 0..g1.len() {
        set.insert(g1.get(i));
    }
    // quick: seeds up to 60 characters (a bound on length, not a sample)
    let maxlen = tier.pick(60, 100000);
    for s in &h.seeds {
        if s.chars().count() <= maxlen {
            set.insert(s.clone());
        }
    }
    let pre = g3(
        &h.seeds,
        &G3Opts { prefixes: true, suffixes: false, windows: 0, deletions: false, ends: vec!["".into()], second_order: false, ws_variants: vec![] },
    );
    let cap = tier.pick(200, 8000);
    for s in pre.into_iter().take(cap) {
        set.insert(s);
    }
    for w in h.vocab.iter().take(tier.pick(60, 300)) {
        for t in ["e.g", "etc", "vs", "et al", "1st", "isn't", "...", "i.e.", "U.S.A.", "1990s", "3rd", "then", "\"", "."] {
            set.insert(format!("{w} {t}"));
            set.insert(format!("{t} {w}"));
        }
    }
    // a later paragraph that holds the characters the address and number lexers look for
    for t in ["Mail x@y.co", "Or to bob@example.org tomorrow.", "@", "a@", "@b", "x:y", "http://c.d/e", "see ftp://f.g:21/h", "1.5", ".5.", "3,000.", "\"q\"@r.st"] {
        set.insert(t.to_string());
    }
    let mut v: Vec<String> = set.into_iter().collect();
    v.sort_by(|a, b| (a.len(), a).cmp(&(b.len(), b)));
    v
}

fn boundary_product(h: &crate::harvest::Harvest, tier: Tier) -> (Vec<String>, Vec<String>) {
    let mut last_words: BTreeSet<String> = BTreeSet::new();
    for w in [
        "Mr", "Mrs", "Ms", "Dr", "Prof", "St", "Jr", "Sr", "Inc", "Ltd", "Co", "Corp", "Dept", "approx", "est", "Fig", "cf", "ca", "vs", "etc", "e.g", "i.e", "No", "a.m", "p.m", "U.S", "Ph.D",
        "et al", "1st", "3", "0x1F", "isn't", "I", "a", "an", "the", "then", "it", "é", "😀", "b@c.co",
    ] {
        last_words.insert(w.to_string());
        last_words.insert(w.to_lowercase());
    }
    for w in h.vocab.iter().take(tier.pick(500, 100000)) {
        last_words.insert(w.clone());
    }
    let mut ps = vec![];
    for w in &last_words {
        if has_dquote(w) {
            continue;
        }
        ps.push(format!("He lives on Main {w}.\n\n"));
        if tier == Tier::Thorough || ps.len() % 4 == 0 {
            ps.push(format!("Is it {w}?\n\n"));
            ps.push(format!("We saw the {w}!\n\n"));
            ps.push(format!("Then came {w}...\n\n"));
        }
    }
    let ds: Vec<String> = [
        "near the park he sat down. then he left.",
        "the cat sat on the mat. it was happy.",
        "  indented line here. Yes it is.",
        "\tTabbed start of a line. Yes.",
        "and then we left. we were tired.",
        "a apple fell down. An pear fell too.",
        "the the dog ran home. he ran fast.",
        "1st we go there. 2nd we stay here.",
        "i think so. i really do.",
        "...and so on it goes. ok then.",
        "teh start is here. teh end is there.",
        "main St. is near. it is long.",
        "Of course. of course not.",
        "it's fine; its owner left. its over.",
        ", he said. and left.",
        "He lives on Main. he is happy.",
        "3 birds sat on the fence. They sang loudly.",
        "7 of them left early. The rest stayed.",
    ]
    .iter()
    .map(|s| s.to_string())
    .collect();
    (ps, ds)
}

pub fn run(tier: Tier) -> i32 {
    let mut report = Report::new("C12", tier, "exploration");
    report.set("rule", "all pairs (P, D): P = quote-free harvested sentence ending in a terminator + blank line (plus condensing-heavy sentences), D = all strings over the plain alphabet up to a length bound, every seed, seed prefixes and word/condensing-trigger pairs; oracle: lints(P+D) == lints(P) (+) shift(lints(D), |P|) as multisets of (span, kind, message, suggestions, priority), all rules on, chunk cache defeated for every call; non-trivial = the pair has at least one lint on each side of the break");
    let h = crate::harvest::harvest();
    let ps_main = paragraphs(&h, tier);
    let ds_main = rests(&h, tier);
    report.set("paragraphs", ps_main.len() as u64);
    report.set("rests", ds_main.len() as u64);
    if ps_main.len() < 60 || ds_main.len() < 500 {
        report.machinery(format!("pair sets too small: {} x {}", ps_main.len(), ds_main.len()));
    }
    // second product: every way a first paragraph can END (each trigger word and abbreviation as
    // its last word, each terminator) x rests whose very BEGINNING is judged by a sentence-start
    // or paragraph-start sensitive rule
    let (ps_edge, ds_edge) = boundary_product(&h, tier);
    report.set("boundary_paragraph_endings", ps_edge.len() as u64);
    report.set("boundary_rest_beginnings", ds_edge.len() as u64);
    let curated = FstDictionary::curated();
    for (ps, ds) in [(ps_main, ds_main), (ps_edge, ds_edge)] {
    // lints of the singles
    let single = |texts: &Vec<String>| -> Vec<Option<Vec<Lint>>> {
        let parts = par_chunks(texts.len() as u64, 200, ncpu(), |s, e| {
            let mut g = all_on(Dialect::American, curated.clone());
            let mut nonce = 0u64;
            let mut out = vec![];
            for i in s..e {
                let t = &texts[i as usize];
                let r = catch(|| {
                    let doc = Document::new_plain_english(t, &*curated);
                    lint_uncached(&mut g, &doc, &mut nonce)
                });
                match r {
                    Ok(l) => out.push(Some(l)),
                    Err(_) => {
                        g = all_on(Dialect::American, curated.clone());
                        out.push(None)
                    }
                }
            }
            out
        });
        parts.into_iter().flatten().collect()
    };
    let lp = single(&ps);
    let ld = single(&ds);
    let np = ps.len() as u64;
    let nd = ds.len() as u64;
    let total = np * nd;
    let res = par_chunks(total, 5000, ncpu(), |s, e| {
        let mut g = all_on(Dialect::American, curated.clone());
        // a second, ordinary long-lived linter whose chunk cache is left alone: the same relation
        // must hold for what a user of a reused linter sees
        let mut g_cached = all_on(Dialect::American, curated.clone());
        let mut nonce = 0u64;
        let mut viols: Vec<Violation> = vec![];
        let mut evals = 0u64;
        let mut nontrivial = 0u64;
        let mut skipped = 0u64;
        let mut outcomes = BTreeSet::new();
        for idx in s..e {
            let pi = (idx / nd) as usize;
            let di = (idx % nd) as usize;
            let (Some(a), Some(b)) = (&lp[pi], &ld[di]) else {
                skipped += 1;
                continue;
            };
            let p = &ps[pi];
            let d = &ds[di];
            let text = format!("{p}{d}");
            let shift = p.chars().count();
            evals += 1;
            let r = catch(|| {
                let doc = Document::new_plain_english(&text, &*curated);
                lint_uncached(&mut g, &doc, &mut nonce)
            });
            let whole = match r {
                Ok(l) => l,
                Err(_) => {
                    g = all_on(Dialect::American, curated.clone());
                    skipped += 1;
                    continue;
                }
            };
            let whole_cached = catch(|| {
                let doc = Document::new_plain_english(&text, &*curated);
                g_cached.lint(&doc)
            });
            if whole_cached.is_err() {
                g_cached = all_on(Dialect::American, curated.clone());
            }
            if !a.is_empty() && !b.is_empty() {
                nontrivial += 1;
            }
            let mut want: Vec<Key> = a.iter().map(|l| key(l, 0)).chain(b.iter().map(|l| key(l, shift))).collect();
            let mut got: Vec<Key> = whole.iter().map(|l| key(l, 0)).collect();
            want.sort();
            got.sort();
            outcomes.insert(h64(&(a.len().min(3), b.len().min(3))));
            if let Ok(wc) = &whole_cached {
                let mut gc: Vec<Key> = wc.iter().map(|l| key(l, 0)).collect();
                gc.sort();
                if gc != want && want == got && viols.len() < 30 {
                    viols.push(Violation {
                        sig: "reused-linter-breaks-the-relation".into(),
                        case: json!({"engine":"E1","paragraph": p, "rest": d, "linter": "long-lived, chunk cache active"}),
                        detail: json!({"got": gc, "want": want}),
                    });
                }
            }
            if want != got {
                let missing: Vec<&Key> = want.iter().filter(|k| !got.contains(k)).collect();
                let extra: Vec<&Key> = got.iter().filter(|k| !want.contains(k)).collect();
                // cause class: the lint kind + which side of the break the first difference is on
                let first = missing.first().or(extra.first()).unwrap();
                let side = if first.0 < shift { "first-paragraph" } else { "rest" };
                let what = if !missing.is_empty() && !extra.is_empty() { "changed" } else if !missing.is_empty() { "lost" } else { "gained" };
                let msgclass: String = msg_class(&first.3).chars().take(28).collect();
                if viols.len() < 30 {
                    viols.push(Violation {
                        sig: format!("lint-{what}-in-{side}:{}:{}", first.2, msgclass),
                        case: json!({"engine":"E1","paragraph": p, "rest": d}),
                        detail: json!({"missing": missing, "extra": extra, "separately": {"P": a.iter().map(lint_json).collect::<Vec<_>>(), "D": b.iter().map(lint_json).collect::<Vec<_>>()}}),
                    });
                }
            }
        }
        (evals, nontrivial, skipped, outcomes, viols)
    });
    for (e, n, sk, o, vs) in res {
        report.add("evaluations", e);
        report.add("distinct_nontrivial", n);
        report.add("skipped_crashed(C01)", sk);
        report.outcomes.extend(o);
        for v in vs {
            report.violation(v);
        }
    }
    report.sample(json!({"engine":"E1","paragraph": ps.get(10), "rest": ds.get(ds.len() / 2)}));
    report.sample(json!({"engine":"E1","paragraph": ps.last(), "rest": ds.last()}));
    }
    report.set("exhaustive", true);
    report.assume("P and D bounded as stated; plain-English front-end; American dialect");
    report.finish()
}
