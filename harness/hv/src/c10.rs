//! C10 — the text being checked never leaves the machine: every explored library / JS-API /
//! language-server execution runs under a syscall monitor (strace), and the resolved dependency
//! graph is enumerated against a deny-list.

use crate::util::*;
use serde_json::{Value, json};
use std::collections::{BTreeMap, BTreeSet, VecDeque};
use std::io::{BufRead, BufReader, Read, Write};
use std::path::{Path, PathBuf};
use std::os::unix::process::CommandExt;
use std::process::{Command, Stdio};

const DENY: &[&str] = &[
    "reqwest", "hyper", "hyper-util", "hyper-tls", "hyper-rustls", "ureq", "curl", "curl-sys", "isahc", "surf", "attohttpc",
    "minreq", "http-client", "h2", "h3", "quinn", "rustls", "native-tls", "openssl", "openssl-sys", "tokio-rustls",
    "tokio-native-tls", "tungstenite", "tokio-tungstenite", "websocket", "trust-dns-resolver", "trust-dns-proto",
    "hickory-resolver", "hickory-proto", "dns-lookup", "sentry", "sentry-core", "opentelemetry", "opentelemetry-otlp",
    "tracing-opentelemetry", "posthog-rs", "segment", "lettre", "ssh2", "libssh2-sys", "async-h1", "awc", "actix-web",
    "actix-http", "warp", "axum", "tonic", "grpcio", "redis", "mongodb", "postgres", "tokio-postgres", "mysql", "sqlx",
    "aws-config", "aws-sdk-s3", "rusoto_core", "google-cloud-storage", "azure_core", "webbrowser-telemetry", "self_update",
    "update-informer", "octocrab", "async-std", "smol", "async-net", "libcurl", "tiny_http", "rouille", "rocket", "tide",
];

// ---------------------------------------------------------------------------------------------
// dependency graph

fn dependency_check(report: &mut Report) {
    let out = Command::new("cargo")
        .args(["metadata", "--offline", "--format-version", "1", "--manifest-path", "/repo/Cargo.toml"])
        .env("RUSTUP_TOOLCHAIN", "stable-x86_64-unknown-linux-gnu")
        .env("CARGO_NET_OFFLINE", "true")
        .output();
    let Ok(out) = out else {
        report.machinery("cargo metadata could not be run");
        return;
    };
    if !out.status.success() {
        report.machinery(format!("cargo metadata failed: {}", String::from_utf8_lossy(&out.stderr).chars().take(300).collect::<String>()));
        return;
    }
    let v: Value = serde_json::from_slice(&out.stdout).unwrap_or_default();
    let mut name_of: BTreeMap<String, String> = BTreeMap::new();
    for p in v["packages"].as_array().cloned().unwrap_or_default() {
        name_of.insert(p["id"].as_str().unwrap_or("").to_string(), p["name"].as_str().unwrap_or("").to_string());
    }
    let mut edges: BTreeMap<String, Vec<(String, bool)>> = BTreeMap::new();
    for n in v["resolve"]["nodes"].as_array().cloned().unwrap_or_default() {
        let id = n["id"].as_str().unwrap_or("").to_string();
        let mut deps = vec![];
        for d in n["deps"].as_array().cloned().unwrap_or_default() {
            let kinds: Vec<String> = d["dep_kinds"].as_array().map(|a| a.iter().map(|k| k["kind"].as_str().unwrap_or("normal").to_string()).collect()).unwrap_or_default();
            // normal and build dependencies ship or run at build time; dev-dependencies do neither
            let relevant = kinds.is_empty() || kinds.iter().any(|k| k != "dev");
            deps.push((d["pkg"].as_str().unwrap_or("").to_string(), relevant));
        }
        edges.insert(id, deps);
    }
    let roots: Vec<String> = name_of.iter().filter(|(_, n)| ["harper-ls", "harper-cli", "harper-wasm", "harper-core", "harper-comments", "harper-html", "harper-typst", "harper-literate-haskell", "harper-stats", "harper-tree-sitter"].contains(&n.as_str())).map(|(i, _)| i.clone()).collect();
    if roots.len() < 3 {
        report.machinery("could not find the shipped crates in cargo metadata");
        return;
    }
    let mut seen: BTreeSet<String> = BTreeSet::new();
    let mut parent: BTreeMap<String, String> = BTreeMap::new();
    let mut q: VecDeque<String> = roots.iter().cloned().collect();
    for r in &roots {
        seen.insert(r.clone());
    }
    while let Some(id) = q.pop_front() {
        for (d, relevant) in edges.get(&id).cloned().unwrap_or_default() {
            if relevant && seen.insert(d.clone()) {
                parent.insert(d.clone(), id.clone());
                q.push_back(d);
            }
        }
    }
    report.set("dependency_packages_reached", seen.len() as u64);
    for id in &seen {
        let name = name_of.get(id).cloned().unwrap_or_default();
        if DENY.contains(&name.as_str()) {
            let mut chain = vec![name.clone()];
            let mut cur = id.clone();
            while let Some(p) = parent.get(&cur) {
                chain.push(name_of.get(p).cloned().unwrap_or_default());
                cur = p.clone();
            }
            report.violation(Violation { sig: format!("dependency:{name}"), case: json!({"engine":"E1","package": name, "reached_via": chain}), detail: json!({"note": "network / TLS / DNS / telemetry capable crate in the resolved graph of the shipped crates"}) });
        }
    }
}

// ---------------------------------------------------------------------------------------------
// strace log analysis

#[derive(Default)]
struct Monitor {
    syscalls: u64,
    file_writes: u64,
    problems: Vec<(String, String)>,
}

fn quoted_paths(line: &str) -> Vec<String> {
    let mut out = vec![];
    let mut cur = String::new();
    let mut inq = false;
    let mut esc = false;
    for c in line.chars() {
        if inq {
            if esc {
                cur.push(c);
                esc = false;
            } else if c == '\\' {
                esc = true;
            } else if c == '"' {
                inq = false;
                out.push(std::mem::take(&mut cur));
            } else {
                cur.push(c);
            }
        } else if c == '"' {
            inq = true;
        }
    }
    out
}

/// Resolve `.` and `..` lexically (what the kernel does for a path without symlinks).
fn normalise(p: &Path) -> PathBuf {
    let mut out = PathBuf::new();
    for c in p.components() {
        match c {
            std::path::Component::ParentDir => {
                out.pop();
            }
            std::path::Component::CurDir => {}
            c => out.push(c),
        }
    }
    out
}

fn analyse(log: &str, cwd: &Path, allowed_raw: &dyn Fn(&Path) -> bool, tcp_listener_ok: bool) -> Monitor {
    let allowed = |p: &Path| allowed_raw(&normalise(p));
    let allowed: &dyn Fn(&Path) -> bool = &allowed;
    let mut m = Monitor::default();
    for line in log.lines() {
        // "<pid> syscall(args) = ret"  (with -f) ; skip signal/exit lines and unfinished halves
        let l = line.trim_start_matches(|c: char| c.is_ascii_digit() || c == ' ');
        let Some(par) = l.find('(') else { continue };
        let name = &l[..par];
        if !name.chars().all(|c| c.is_ascii_alphanumeric() || c == '_') || name.is_empty() {
            continue;
        }
        m.syscalls += 1;
        let failed = l.contains(" = -1 ");
        match name {
            "socket" => {
                if l.contains("AF_INET") || l.contains("AF_INET6") || l.contains("AF_NETLINK") || l.contains("AF_PACKET") {
                    if !tcp_listener_ok || !(l.contains("AF_INET,") || l.contains("AF_INET ")) {
                        m.problems.push(("network:socket".into(), l.to_string()));
                    }
                }
            }
            "connect" | "sendto" | "sendmsg" | "sendmmsg" => {
                if l.contains("AF_INET") || l.contains("AF_INET6") || l.contains("sin_port") || l.contains("sin6_port") {
                    m.problems.push((format!("network:{name}"), l.to_string()));
                }
            }
            "bind" => {
                if l.contains("AF_INET") || l.contains("AF_INET6") {
                    let loopback_4000 = l.contains("htons(4000)") && l.contains("127.0.0.1");
                    if !(tcp_listener_ok && loopback_4000) {
                        m.problems.push(("network:bind".into(), l.to_string()));
                    }
                }
            }
            "open" | "openat" | "creat" | "openat2" => {
                let paths = quoted_paths(l);
                let Some(p) = paths.first() else { continue };
                let pb = if Path::new(p).is_absolute() { PathBuf::from(p) } else { cwd.join(p) };
                if p.ends_with("resolv.conf") || p == "/etc/hosts" || p.ends_with("/etc/host.conf") || p.ends_with("/etc/gai.conf") {
                    m.problems.push(("dns:resolver-configuration-read".into(), l.to_string()));
                }
                let writing = name == "creat" || l.contains("O_WRONLY") || l.contains("O_RDWR") || l.contains("O_CREAT") || l.contains("O_TRUNC") || l.contains("O_APPEND");
                if writing && !failed {
                    m.file_writes += 1;
                    if !allowed(&pb) {
                        m.problems.push(("file:write-outside-configured-files".into(), l.to_string()));
                    }
                }
            }
            "rename" | "renameat" | "renameat2" | "unlink" | "unlinkat" | "mkdir" | "mkdirat" | "truncate" | "link" | "linkat" | "symlink" | "symlinkat" => {
                if failed {
                    continue;
                }
                let mut paths = quoted_paths(l);
                if name.starts_with("symlink") && paths.len() > 1 {
                    // symlink(target, linkpath): only the link is created; the target is just text
                    paths = vec![paths.pop().unwrap()];
                }
                for p in paths {
                    let pb = if Path::new(&p).is_absolute() { PathBuf::from(&p) } else { cwd.join(&p) };
                    m.file_writes += 1;
                    if !allowed(&pb) {
                        m.problems.push((format!("file:{name}-outside-configured-files"), l.to_string()));
                    }
                }
            }
            _ => {}
        }
    }
    m
}

const TRACE: &str = "trace=%network,open,openat,openat2,creat,rename,renameat,renameat2,unlink,unlinkat,mkdir,mkdirat,truncate,link,linkat,symlink,symlinkat";

fn strace_available() -> bool {
    Command::new("strace").arg("-V").stdout(Stdio::null()).stderr(Stdio::null()).status().map(|s| s.success()).unwrap_or(false)
}

// ---------------------------------------------------------------------------------------------
// children (run under strace)

/// Library + JS-facing API workload (child process).
pub fn lib_child() -> i32 {
    use harper_core::linting::Linter;
    let h = crate::harvest::load();
    let fes = crate::frontends::all();
    let cur = harper_core::FstDictionary::curated();
    let mut g = crate::sweep::all_on(harper_core::Dialect::American, cur.clone());
    let mut n = 0u64;
    for fe in &fes {
        for s in h.seeds.iter().step_by(9) {
            let text = fe.embed(s);
            let chars = s2c(&text);
            let _ = catch(|| {
                let (p, d) = fe.prepare(&chars, &cur);
                let doc = harper_core::Document::new(&text, &p, &d);
                g.lint(&doc).len()
            });
            n += 1;
        }
    }
    // JS-facing API
    {
        use harper_wasm::{Dialect, Language, Linter};
        let mut l = Linter::new(Dialect::American);
        for t in crate::e2::W_TEXTS {
            let lints = l.lint(t.to_string(), Language::Markdown);
            for x in &lints {
                if let Some(s) = x.suggestions().first() {
                    let _ = l.apply_suggestion(t.to_string(), x, s);
                }
            }
            if let Some(x) = lints.into_iter().next() {
                l.ignore_lint(t.to_string(), x);
            }
            n += 1;
        }
        l.import_words(vec!["tset".into(), "naïvité".into()]);
        let _ = l.export_words();
        let _ = l.export_ignored_lints();
        let f = l.generate_stats_file();
        let _ = l.import_stats_file(f);
        let _ = harper_wasm::to_title_case("the text being checked".into());
        let _ = l.get_lint_descriptions_as_json();
    }
    println!("cases {n}");
    0
}

/// In-process language-server sessions (child process). Prints the world roots it used.
pub fn server_child(depth: usize) -> i32 {
    crate::e3::sandbox_env();
    use crate::c09::{Op, Session, ops};
    let all = ops();
    let seqs = crate::e2::sequences(all.len(), depth);
    let mut n = 0u64;
    for s in &seqs {
        let Ok(mut sess) = Session::new("c10") else { continue };
        println!("world {}", sess.world.root.display());
        // sessions also exercise the statistics path and a configured statsPath
        let stats = sess.world.root.join("data/custom-stats/stats.txt");
        if let Some(o) = sess.server.settings["harper-ls"].as_object_mut() {
            o.insert("statsPath".into(), json!(stats.to_string_lossy()));
        }
        let mut ok = true;
        for k in s {
            let op: &Op = &all[*k];
            if !sess.applicable(op) {
                ok = false;
                break;
            }
            sess.send(op);
            if sess.server.run_default().is_err() {
                ok = false;
                break;
            }
        }
        if ok {
            // record a statistic, then shut down (writes the stats file)
            let rec = serde_json::to_string(&harper_stats::RecordKind::Lint { kind: harper_core::linting::LintKind::Spelling, context: vec![] }).unwrap();
            let req = sess.server.request("workspace/executeCommand", json!({"command": "HarperRecordLint", "arguments": [rec]}));
            sess.server.enqueue("record", req);
            let _ = sess.server.run_default();
            let req = sess.server.request("shutdown", Value::Null);
            sess.server.enqueue("shutdown", req);
            let _ = sess.server.run_default();
            n += 1;
        }
    }
    // a document whose URI carries percent-encoded path separators and parent-directory segments:
    // its file dictionary must still land inside the configured directory
    let up = "..%2F".repeat(14);
    let weird_names = [format!("{up}escape.md"), format!("sub%2Fdir%2F{up}escape2.md"), "..%2F..%2Fnear.md".to_string(), "%2E%2E/up.md".to_string()];
    // a file: URI with an authority (a host name must never be looked up), an untitled: buffer
    let hosted = ["file://fileserver.example/share/notes.md".to_string(), "file://wsl.localhost/home/u/notes.md".to_string(), "untitled:Untitled-1".to_string()];
    for uri in hosted.iter() {
        let Ok(mut sess) = Session::new("c10") else { continue };
        println!("world {}", sess.world.root.display());
        for (label, msg) in [
            ("open-hosted", crate::e3::Server::notification("textDocument/didOpen", json!({"textDocument": {"uri": uri, "languageId": "markdown", "version": 1, "text": "I like my tset."}}))),
            ("change-hosted", crate::e3::Server::notification("textDocument/didChange", json!({"textDocument": {"uri": uri, "version": 2}, "contentChanges": [{"text": "I like teh tset."}]}))),
            ("save-hosted", crate::e3::Server::notification("textDocument/didSave", json!({"textDocument": {"uri": uri}}))),
        ] {
            sess.server.enqueue(label, msg);
            let _ = sess.server.run_default();
        }
        let add = sess.server.request("workspace/executeCommand", json!({"command": "HarperAddToFileDict", "arguments": ["tset", uri]}));
        sess.server.enqueue("add-hosted", add);
        let _ = sess.server.run_default();
        n += 1;
    }
    // an untitled: buffer whose URI carries an absolute path (the editor was started on a file that
    // does not exist yet): adding a word for it must not write next to that path
    {
        if let Ok(mut sess) = Session::new("c10") {
            println!("world {}", sess.world.root.display());
            let uri = format!("untitled:{}/sub/draft.md", sess.world.docs_dir.display());
            let open = crate::e3::Server::notification("textDocument/didOpen", json!({"textDocument": {"uri": uri, "languageId": "markdown", "version": 1, "text": "I like my tset."}}));
            sess.server.enqueue("open-untitled-abs", open);
            let _ = sess.server.run_default();
            for cmd in ["HarperAddToFileDict", "HarperAddToUserDict"] {
                let add = sess.server.request("workspace/executeCommand", json!({"command": cmd, "arguments": ["tset", uri]}));
                sess.server.enqueue("add-untitled-abs", add);
                let _ = sess.server.run_default();
            }
            n += 1;
        }
    }
    // the checked text names hosts: linting it and asking for code actions ON the addresses must
    // not look any of them up
    {
        if let Ok(mut sess) = Session::new("c10") {
            println!("world {}", sess.world.root.display());
            let uri = sess.uri(0);
            let text = "See https://zzq-harper-host.invalid/path and http://zzqhost.example:8080/x or ftp://zzq.example/f, mail zzq@zzqmail.example about teh tset.";
            let open = crate::e3::Server::notification("textDocument/didOpen", json!({"textDocument": {"uri": uri, "languageId": "markdown", "version": 1, "text": text}}));
            sess.server.enqueue("open-with-urls", open);
            let _ = sess.server.run_default();
            let n_chars = text.chars().count() as u32;
            let mut col = 0u32;
            while col < n_chars {
                let req = sess.server.request("textDocument/codeAction", json!({"textDocument": {"uri": uri}, "range": {"start": {"line": 0, "character": col}, "end": {"line": 0, "character": col + 1}}, "context": {"diagnostics": []}}));
                sess.server.enqueue("codeAction-on-address", req);
                let _ = sess.server.run_default();
                col += 3;
            }
            let req = sess.server.request("textDocument/codeAction", json!({"textDocument": {"uri": uri}, "range": {"start": {"line": 0, "character": 0}, "end": {"line": 0, "character": n_chars}}, "context": {"diagnostics": []}}));
            sess.server.enqueue("codeAction-whole-line", req);
            let _ = sess.server.run_default();
            n += 1;
        }
    }
    // the configured user dictionary is a symbolic link with a RELATIVE target (dotfile managers):
    // adding a word must write inside the configured directory, not relative to the server's cwd
    {
        if let Ok(mut sess) = Session::new("c10") {
            println!("world {}", sess.world.root.display());
            let cfg = sess.world.user_dict.parent().unwrap().to_path_buf();
            let _ = std::fs::create_dir_all(cfg.join("real"));
            let _ = std::fs::write(cfg.join("real/dictionary.txt"), "thw\n");
            let _ = std::os::unix::fs::symlink("real/dictionary.txt", &sess.world.user_dict);
            let all = crate::c09::ops();
            sess.send(&all[0]);
            let _ = sess.server.run_default();
            let uri = sess.uri(0);
            let add = sess.server.request("workspace/executeCommand", json!({"command": "HarperAddToUserDict", "arguments": ["tset", uri]}));
            sess.server.enqueue("add-through-symlink", add);
            let _ = sess.server.run_default();
            n += 1;
        }
    }
    // fault path: the configured statistics path cannot be opened (it is a directory)
    {
        if let Ok(mut sess) = Session::new("c10") {
            println!("world {}", sess.world.root.display());
            let bad = sess.world.docs_dir.clone();
            if let Some(o) = sess.server.settings["harper-ls"].as_object_mut() {
                o.insert("statsPath".into(), json!(bad.to_string_lossy()));
            }
            let all = crate::c09::ops();
            sess.send(&all[0]);
            let _ = sess.server.run_default();
            let rec = serde_json::to_string(&harper_stats::RecordKind::Lint { kind: harper_core::linting::LintKind::Spelling, context: vec![] }).unwrap();
            let req = sess.server.request("workspace/executeCommand", json!({"command": "HarperRecordLint", "arguments": [rec]}));
            sess.server.enqueue("record", req);
            let _ = sess.server.run_default();
            let req = sess.server.request("shutdown", Value::Null);
            sess.server.enqueue("shutdown", req);
            let _ = sess.server.run_default();
            n += 1;
        }
    }
    for weird in weird_names.iter() {
        let Ok(mut sess) = Session::new("c10") else { continue };
        println!("world {}", sess.world.root.display());
        let uri = format!("file://{}/{}", sess.world.docs_dir.display(), weird);
        let open = crate::e3::Server::notification("textDocument/didOpen", json!({"textDocument": {"uri": uri, "languageId": "markdown", "version": 1, "text": "I like my tset."}}));
        sess.server.enqueue("open-weird", open);
        let _ = sess.server.run_default();
        let add = sess.server.request("workspace/executeCommand", json!({"command": "HarperAddToFileDict", "arguments": ["tset", uri]}));
        sess.server.enqueue("add-weird", add);
        let _ = sess.server.run_default();
        n += 1;
    }
    println!("sessions {n}");
    0
}

// ---------------------------------------------------------------------------------------------
// the shipped binary over stdio / TCP

fn frame(v: &Value) -> Vec<u8> {
    let body = v.to_string();
    format!("Content-Length: {}\r\n\r\n{}", body.len(), body).into_bytes()
}

fn read_frame(r: &mut dyn BufRead) -> Option<Value> {
    let mut len = 0usize;
    loop {
        let mut line = String::new();
        if r.read_line(&mut line).ok()? == 0 {
            return None;
        }
        let t = line.trim();
        if t.is_empty() {
            break;
        }
        if let Some(v) = t.strip_prefix("Content-Length:") {
            len = v.trim().parse().ok()?;
        }
    }
    let mut buf = vec![0u8; len];
    r.read_exact(&mut buf).ok()?;
    serde_json::from_slice(&buf).ok()
}

struct RealSession {
    root: PathBuf,
    settings: Value,
}

/// Talk LSP to a running server over (reader, writer): initialize, the given client messages
/// (waiting for the diagnostics of each text change), shutdown, exit. Answers every
/// server->client request. Every wait has a timeout: a server that stops answering is reported.
fn converse(r: impl BufRead + Send + 'static, mut w: impl Write, s: &RealSession, msgs: &[Value]) -> Result<u64, String> {
    use std::sync::mpsc;
    use std::time::Duration;
    let (tx, rx) = mpsc::channel::<Value>();
    std::thread::spawn(move || {
        let mut r = r;
        while let Some(f) = read_frame(&mut r) {
            if tx.send(f).is_err() {
                break;
            }
        }
    });
    let mut next_id = 1i64;
    let mut published = 0u64;
    fn send(w: &mut dyn Write, v: Value) -> Result<(), String> {
        w.write_all(&frame(&v)).and_then(|_| w.flush()).map_err(|e| e.to_string())
    }
    // wait until `done` says so, answering server requests on the way
    let mut pump = |w: &mut dyn Write, published: &mut u64, done: &mut dyn FnMut(&Value) -> bool, what: &str| -> Result<(), String> {
        loop {
            let f = rx.recv_timeout(Duration::from_secs(90)).map_err(|_| format!("server-unresponsive: no reply within 90 s while waiting for {what}"))?;
            if f.get("method").is_some() {
                if let Some(id) = f.get("id") {
                    let result = if f["method"] == "workspace/configuration" { json!([s.settings]) } else { Value::Null };
                    send(w, json!({"jsonrpc":"2.0","id": id, "result": result}))?;
                } else if f["method"] == "textDocument/publishDiagnostics" {
                    *published += 1;
                }
            }
            if done(&f) {
                return Ok(());
            }
        }
    };
    send(&mut w, json!({"jsonrpc":"2.0","id": next_id, "method":"initialize","params":{"capabilities":{}}}))?;
    let want = next_id;
    pump(&mut w, &mut published, &mut |f| f.get("method").is_none() && f["id"].as_i64() == Some(want), "the initialize response")?;
    send(&mut w, json!({"jsonrpc":"2.0","method":"initialized","params":{}}))?;
    for m in msgs {
        let mut m = m.clone();
        let method = m["method"].as_str().unwrap_or("").to_string();
        if m.get("id").is_some() {
            next_id += 1;
            m["id"] = json!(next_id);
        }
        send(&mut w, m)?;
        // the first document message is awaited so that later ones find the document; the rest are
        // sent back-to-back (in flight together)
        if method == "textDocument/didOpen" {
            pump(&mut w, &mut published, &mut |f| f["method"] == "textDocument/publishDiagnostics", "diagnostics after didOpen")?;
        }
    }
    next_id += 1;
    let want = next_id;
    send(&mut w, json!({"jsonrpc":"2.0","id": next_id, "method":"shutdown"}))?;
    pump(&mut w, &mut published, &mut |f| f.get("method").is_none() && f["id"].as_i64() == Some(want), "the shutdown response")?;
    send(&mut w, json!({"jsonrpc":"2.0","method":"exit"}))?;
    Ok(published)
}

fn real_messages(root: &Path, k: usize) -> Vec<Value> {
    let doc = root.join("docs/a.md");
    let uri = format!("file://{}", doc.display());
    let open = json!({"jsonrpc":"2.0","method":"textDocument/didOpen","params":{"textDocument":{"uri": uri, "languageId":"markdown","version":1,"text":"I like my tset and teh thing."}}});
    let change = json!({"jsonrpc":"2.0","method":"textDocument/didChange","params":{"textDocument":{"uri": uri, "version":2},"contentChanges":[{"text":"Another tset here, secret text."}]}});
    let save = json!({"jsonrpc":"2.0","method":"textDocument/didSave","params":{"textDocument":{"uri": uri}}});
    let add_user = json!({"jsonrpc":"2.0","id":0,"method":"workspace/executeCommand","params":{"command":"HarperAddToUserDict","arguments":["tset", uri]}});
    let add_file = json!({"jsonrpc":"2.0","id":0,"method":"workspace/executeCommand","params":{"command":"HarperAddToFileDict","arguments":["teh", uri]}});
    let record = json!({"jsonrpc":"2.0","id":0,"method":"workspace/executeCommand","params":{"command":"HarperRecordLint","arguments":[serde_json::to_string(&harper_stats::RecordKind::Lint { kind: harper_core::linting::LintKind::Spelling, context: vec![] }).unwrap()]}});
    let action = json!({"jsonrpc":"2.0","id":0,"method":"textDocument/codeAction","params":{"textDocument":{"uri": uri},"range":{"start":{"line":0,"character":11},"end":{"line":0,"character":12}},"context":{"diagnostics":[]}}});
    let close = json!({"jsonrpc":"2.0","method":"textDocument/didClose","params":{"textDocument":{"uri": uri}}});
    let menu = [vec![open.clone()], vec![open.clone(), change.clone()], vec![open.clone(), add_user.clone()], vec![open.clone(), add_file.clone()], vec![open.clone(), save], vec![open.clone(), record], vec![open.clone(), action], vec![open.clone(), close], vec![open.clone(), add_user, add_file, change]];
    menu[k % menu.len()].clone()
}

fn real_session_setup(tag: &str, custom_stats: bool) -> RealSession {
    let root = PathBuf::from(format!("{VERIF_ROOT}/target/tmp/c10/{}-{tag}", std::process::id()));
    let _ = std::fs::remove_dir_all(&root);
    std::fs::create_dir_all(root.join("docs")).unwrap();
    std::fs::create_dir_all(root.join("home")).unwrap();
    std::fs::write(root.join("docs/a.md"), "On disk.\n").unwrap();
    let mut hl = json!({
        "userDictPath": root.join("cfg/dictionary.txt").to_string_lossy(),
        "fileDictPath": root.join("data/file_dictionaries").to_string_lossy(),
        "linters": {},
    });
    if custom_stats {
        hl["statsPath"] = json!(root.join("data/custom-stats/stats.txt").to_string_lossy());
    }
    RealSession { settings: json!({"harper-ls": hl}), root }
}

fn allowed_for(root: &Path) -> impl Fn(&Path) -> bool {
    let root = root.to_path_buf();
    move |p: &Path| {
        let s = p.to_string_lossy().to_string();
        if s == "/dev/null" || s == "/dev/tty" {
            return true;
        }
        let ok_files = [
            root.join("cfg/dictionary.txt"),
            root.join("cfg/dictionary.txt.tmp"),
            root.join("data/stats.txt"),
            root.join("data/custom-stats/stats.txt"),
            // defaults under the sandboxed HOME
            root.join("home/.config/harper-ls/dictionary.txt"),
            root.join("home/.config/harper-ls/dictionary.txt.tmp"),
            root.join("home/.local/share/harper-ls/stats.txt"),
        ];
        if ok_files.iter().any(|f| f == p) {
            return true;
        }
        let ok_dirs = [root.join("data/file_dictionaries"), root.join("home/.local/share/harper-ls/file_dictionaries")];
        if ok_dirs.iter().any(|d| p.starts_with(d)) {
            return true;
        }
        // parent directories of the above (mkdir -p)
        let parents = [root.join("cfg"), root.join("data"), root.join("data/custom-stats"), root.join("home/.config"), root.join("home/.config/harper-ls"), root.join("home/.local"), root.join("home/.local/share"), root.join("home/.local/share/harper-ls")];
        parents.iter().any(|d| d == p)
    }
}

/// Wait for the monitored process tree to end; kill the whole process group after `secs`.
fn wait_or_kill(child: &mut std::process::Child, secs: u64) -> bool {
    let t0 = std::time::Instant::now();
    loop {
        match child.try_wait() {
            Ok(Some(_)) => return true,
            Ok(None) => {}
            Err(_) => return false,
        }
        if t0.elapsed().as_secs() >= secs {
            unsafe {
                libc::kill(-(child.id() as i32), libc::SIGKILL);
            }
            let _ = child.kill();
            let _ = child.wait();
            return false;
        }
        std::thread::sleep(std::time::Duration::from_millis(20));
    }
}

fn run_real_stdio(k: usize, custom_stats: bool) -> Result<(Monitor, u64), String> {
    let s = real_session_setup(&format!("stdio-{k}-{custom_stats}"), custom_stats);
    let log = s.root.join("strace.log");
    let bin = std::env::current_exe().unwrap().with_file_name("harper-ls-real");
    let mut child = Command::new("strace")
        .args(["-f", "-qq", "-e", TRACE, "-o"])
        .arg(&log)
        .arg(&bin)
        .arg("--stdio")
        .process_group(0)
        .current_dir(&s.root)
        .env("HOME", s.root.join("home"))
        .env("XDG_CONFIG_HOME", s.root.join("home/.config"))
        .env("XDG_DATA_HOME", s.root.join("home/.local/share"))
        .stdin(Stdio::piped())
        .stdout(Stdio::piped())
        .stderr(Stdio::null())
        .spawn()
        .map_err(|e| e.to_string())?;
    let w = child.stdin.take().unwrap();
    let r = BufReader::new(child.stdout.take().unwrap());
    let msgs = real_messages(&s.root, k);
    let res = converse(r, w, &s, &msgs);
    // whether the process ends by itself after `exit` is not part of this property: give it a
    // moment, then end the whole process group; the syscall log is complete either way
    let _exited = wait_or_kill(&mut child, if res.is_err() { 0 } else { 5 });
    let published = match res {
        Ok(p) => p,
        Err(e) => {
            let _ = std::fs::remove_dir_all(&s.root);
            return Err(e);
        }
    };
    let text = std::fs::read_to_string(&log).map_err(|e| e.to_string())?;
    let m = analyse(&text, &s.root, &allowed_for(&s.root), false);
    let _ = std::fs::remove_dir_all(&s.root);
    Ok((m, published))
}

fn run_real_tcp(k: usize) -> Result<(Monitor, u64), String> {
    let s = real_session_setup(&format!("tcp-{k}"), false);
    let log = s.root.join("strace.log");
    let bin = std::env::current_exe().unwrap().with_file_name("harper-ls-real");
    let mut child = Command::new("strace")
        .args(["-f", "-qq", "-e", TRACE, "-o"])
        .arg(&log)
        .arg(&bin)
        .process_group(0)
        .current_dir(&s.root)
        .env("HOME", s.root.join("home"))
        .env("XDG_CONFIG_HOME", s.root.join("home/.config"))
        .env("XDG_DATA_HOME", s.root.join("home/.local/share"))
        .stdin(Stdio::null())
        .stdout(Stdio::null())
        .stderr(Stdio::null())
        .spawn()
        .map_err(|e| e.to_string())?;
    let mut stream = None;
    for _ in 0..100 {
        std::thread::sleep(std::time::Duration::from_millis(50));
        if let Ok(st) = std::net::TcpStream::connect("127.0.0.1:4000") {
            stream = Some(st);
            break;
        }
    }
    let Some(stream) = stream else {
        let _ = child.kill();
        let _ = child.wait();
        return Err("could not connect to the TCP listener on 127.0.0.1:4000".into());
    };
    let r = BufReader::new(stream.try_clone().map_err(|e| e.to_string())?);
    let res = converse(r, stream, &s, &real_messages(&s.root, k));
    let _exited = wait_or_kill(&mut child, if res.is_err() { 0 } else { 5 });
    let published = match res {
        Ok(p) => p,
        Err(e) => {
            let _ = std::fs::remove_dir_all(&s.root);
            return Err(e);
        }
    };
    let text = std::fs::read_to_string(&log).map_err(|e| e.to_string())?;
    let m = analyse(&text, &s.root, &allowed_for(&s.root), true);
    let _ = std::fs::remove_dir_all(&s.root);
    Ok((m, published))
}

fn run_hv_child(args: &[&str], report: &mut Report, label: &str) -> Option<(Monitor, String)> {
    let dir = PathBuf::from(format!("{VERIF_ROOT}/target/tmp/c10/{}-{label}", std::process::id()));
    let _ = std::fs::create_dir_all(&dir);
    let log = dir.join("strace.log");
    let exe = std::env::current_exe().unwrap();
    let out = Command::new("strace").args(["-f", "-qq", "-e", TRACE, "-o"]).arg(&log).arg(&exe).args(args).current_dir(&dir).env("HV_KEEP_WORLDS", "1").stderr(Stdio::null()).output();
    let Ok(out) = out else {
        report.machinery(format!("could not run {label} child under strace"));
        return None;
    };
    if !out.status.success() {
        report.machinery(format!("{label} child failed: {:?}", out.status));
        return None;
    }
    let stdout = String::from_utf8_lossy(&out.stdout).to_string();
    let text = std::fs::read_to_string(&log).unwrap_or_default();
    // harness-owned locations: its scratch worlds' roots and docs, its own target/tmp and evidence
    let worlds: Vec<PathBuf> = stdout.lines().filter_map(|l| l.strip_prefix("world ")).map(PathBuf::from).collect();
    let home = format!("{VERIF_ROOT}/target/tmp/e3/home-");
    let allowed = move |p: &Path| -> bool {
        let s = p.to_string_lossy().to_string();
        if s == "/dev/null" || s == "/dev/tty" {
            return true;
        }
        if s.starts_with(&home) {
            return true; // sandboxed HOME created by the harness itself
        }
        for w in &worlds {
            // the harness plays the editor: it creates the documents directory and writes exactly
            // these two buffers (didSave); anything else next to the documents is the server's doing
            if p == w.as_path() || p == w.join("docs") || p == w.join("docs/a.md") || p == w.join("docs/b.txt") {
                return true;
            }
            let ok_files = [w.join("cfg/dictionary.txt"), w.join("cfg/dictionary.txt.tmp"), w.join("data/stats.txt"), w.join("data/custom-stats/stats.txt"),
                // where the user dictionary of the symlink session really lives (harness-made, and a legitimate place to save to)
                w.join("cfg/real"), w.join("cfg/real/dictionary.txt"), w.join("cfg/real/dictionary.txt.tmp")];
            if ok_files.iter().any(|f| f == p) || p.starts_with(w.join("data/file_dictionaries")) {
                return true;
            }
            if [w.join("cfg"), w.join("data"), w.join("data/custom-stats")].iter().any(|d| d == p) {
                return true;
            }
        }
        // creating the e3 scratch root itself
        let e3 = PathBuf::from(format!("{VERIF_ROOT}/target/tmp/e3"));
        p == e3 || p == Path::new(&format!("{VERIF_ROOT}/target/tmp")) || p == Path::new(&format!("{VERIF_ROOT}/target"))
    };
    let m = analyse(&text, &dir, &allowed, false);
    let _ = std::fs::remove_dir_all(&dir);
    for w in stdout.lines().filter_map(|l| l.strip_prefix("world ")) {
        let _ = std::fs::remove_dir_all(w);
    }
    Some((m, stdout))
}

pub fn run(tier: Tier) -> i32 {
    let mut report = Report::new("C10", tier, "exploration");
    report.set("rule", "every execution of three workloads runs under strace -f: (1) the library on harvested seeds through all 36 front-end compositions plus the JS-facing API; (2) the real Backend in-process for every applicable LSP session up to the depth bound followed by HarperRecordLint and shutdown, with a configured statsPath; (3) the shipped harper-ls binary over stdio (9 sessions x statsPath on/off) and over its TCP listener. Oracle on the syscall log: no AF_INET/AF_INET6/AF_NETLINK socket, connect, bind, sendto or sendmsg other than the loopback listener 127.0.0.1:4000 of TCP mode; no read of resolver configuration; every open-for-write, rename, unlink, mkdir resolves to the configured user dictionary (or its .tmp sibling), a file under the configured file-dictionary directory, the configured/default statistics file or their parent directories (documents written by the harness in its role as editor are the harness's own). Plus breadth-first reachability over cargo metadata from the shipped crates against a deny-list of network/TLS/DNS/telemetry crates. Non-trivial = a monitored execution that performed at least one file write");
    if !strace_available() {
        report.machinery("strace is not available");
        return report.finish();
    }
    dependency_check(&mut report);
    // harvest for the child
    let h = crate::harvest::harvest();
    crate::harvest::save(&h);
    let mut evals = 0u64;
    let mut nontrivial = 0u64;
    let mut syscalls = 0u64;
    let mut absorb = |m: Monitor, case: Value, report: &mut Report, evals_n: u64| {
        syscalls += m.syscalls;
        evals += evals_n;
        if m.file_writes > 0 {
            nontrivial += 1;
        }
        for (sig, line) in m.problems {
            report.violation(Violation { sig, case: case.clone(), detail: json!({"syscall": line}) });
        }
    };
    if let Some((m, out)) = run_hv_child(&["c10-lib-child"], &mut report, "lib") {
        let n = out.lines().find_map(|l| l.strip_prefix("cases ")).and_then(|x| x.parse::<u64>().ok()).unwrap_or(0);
        report.set("library_cases_under_monitor", n);
        if n < 1000 {
            report.machinery("library child ran too few cases");
        }
        absorb(m, json!({"engine":"E1","workload":"library + JS-facing API under strace"}), &mut report, n);
    }
    let depth = tier.pick(2, 3).to_string();
    if let Some((m, out)) = run_hv_child(&["c10-server-child", &depth], &mut report, "server") {
        let n = out.lines().find_map(|l| l.strip_prefix("sessions ")).and_then(|x| x.parse::<u64>().ok()).unwrap_or(0);
        report.set("inprocess_server_sessions_under_monitor", n);
        if n < 10 {
            report.machinery("server child ran too few sessions");
        }
        absorb(m, json!({"engine":"E3","workload":"in-process Backend sessions under strace", "depth": depth}), &mut report, n);
    }
    // the shipped binary
    let jobs: Vec<(usize, bool)> = (0..9).flat_map(|k| [(k, false), (k, true)]).collect();
    let res = crate::pool::par_chunks(jobs.len() as u64, 1, ncpu().min(8), |s, e| {
        let mut out = vec![];
        for i in s..e {
            let (k, cs) = jobs[i as usize];
            out.push((k, cs, run_real_stdio(k, cs)));
        }
        out
    });
    let mut real_ok = 0u64;
    for (k, cs, r) in res.into_iter().flatten() {
        match r {
            Ok((m, published)) => {
                real_ok += 1;
                if published == 0 {
                    report.machinery(format!("real stdio session {k} saw no publishDiagnostics"));
                }
                let _ = cs;
                absorb(m, json!({"engine":"E3","workload":"harper-ls --stdio under strace", "session": k, "statsPath_configured": cs}), &mut report, 1);
            }
            Err(e) if e.starts_with("server-unresponsive") => report.violation(Violation { sig: "server-unresponsive".into(), case: json!({"engine":"E3","workload":"harper-ls --stdio", "session": k, "messages": real_messages(Path::new("/doc-root"), k).iter().map(|m| m["method"].clone()).collect::<Vec<_>>()}), detail: json!({"error": e}) }),
            Err(e) => report.machinery(format!("real stdio session {k}: {e}")),
        }
    }
    report.set("real_binary_stdio_sessions", real_ok);
    let mut tcp_ok = 0u64;
    for k in 0..tier.pick(1usize, 3usize) {
        // the listener address is fixed (127.0.0.1:4000): skip, and say so, if something else holds it
        if std::net::TcpListener::bind("127.0.0.1:4000").is_err() {
            report.set("tcp_mode_skipped", "port 4000 is occupied by another process");
            break;
        }
        match run_real_tcp(k + 2) {
            Ok((m, _)) => {
                tcp_ok += 1;
                absorb(m, json!({"engine":"E3","workload":"harper-ls TCP mode under strace", "session": k + 2}), &mut report, 1);
            }
            Err(e) => report.machinery(format!("real tcp session: {e}")),
        }
    }
    report.set("real_binary_tcp_sessions", tcp_ok);
    report.set("syscalls_inspected", syscalls);
    report.add("evaluations", evals);
    report.add("distinct_nontrivial", nontrivial);
    report.outcomes.insert(nontrivial);
    report.outcomes.insert(evals);
    report.set("exhaustive", true);
    report.sample(json!({"engine":"E3","workload":"harper-ls --stdio under strace","session":[ "didOpen", "HarperAddToUserDict", "HarperAddToFileDict", "didChange", "shutdown"]}));
    report.assume("the dependency half is only as strong as the deny-list (tokio/mio/socket2 are capable but are what the loopback listener needs; their use is what the runtime monitor observes)");
    report.assume("HarperOpen (user-initiated URL open) is excluded, as the property states");
    report.finish()
}

pub fn debug_real(k: usize, tcp: bool) {
    let r = if tcp { run_real_tcp(k) } else { run_real_stdio(k, true) };
    match r {
        Ok((m, p)) => println!("ok syscalls={} writes={} published={} problems={:?}", m.syscalls, m.file_writes, p, m.problems),
        Err(e) => println!("err {e}"),
    }
}
