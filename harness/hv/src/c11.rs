//! C11 — rule switches do exactly what they say (engine E2 over configurations).

use crate::pool::par_chunks;
use crate::util::*;
use harper_core::linting::{Lint, LintGroup, LintGroupConfig, Linter};
use harper_core::{Dialect, Document, FstDictionary};
use serde_json::{Value, json};
use std::collections::{BTreeMap, BTreeSet};
use std::sync::Arc;

type Key = (usize, usize, String, String, String, u8);
fn key(l: &Lint) -> Key {
    (
        l.span.start,
        l.span.end,
        format!("{:?}", l.lint_kind),
        l.message.clone(),
        l.suggestions.iter().map(|s| s.to_string()).collect::<Vec<_>>().join("|"),
        l.priority,
    )
}

pub fn rule_keys(g: &LintGroup) -> Vec<String> {
    let mut k: Vec<String> = g.iter_keys().map(|s| s.to_string()).collect();
    k.sort();
    k.dedup();
    k
}

fn cfg_map(c: &LintGroupConfig) -> BTreeMap<String, Option<bool>> {
    let v = serde_json::to_value(c).unwrap();
    v.as_object()
        .map(|o| o.iter().map(|(k, v)| (k.clone(), v.as_bool())).collect())
        .unwrap_or_default()
}

// ---------------------------------------------------------------------------------------------
// Overlay algebra, exhaustively on 3 keys x {absent, null, true, false}

fn mk_cfg(vals: &[u8; 3], names: &[&str; 3]) -> LintGroupConfig {
    let mut o = serde_json::Map::new();
    for i in 0..3 {
        match vals[i] {
            0 => {}
            1 => {
                o.insert(names[i].into(), Value::Null);
            }
            2 => {
                o.insert(names[i].into(), Value::Bool(true));
            }
            _ => {
                o.insert(names[i].into(), Value::Bool(false));
            }
        }
    }
    serde_json::from_value(Value::Object(o)).unwrap()
}

fn model(vals: &[u8; 3]) -> [Option<bool>; 3] {
    let mut m = [None; 3];
    for i in 0..3 {
        m[i] = match vals[i] {
            2 => Some(true),
            3 => Some(false),
            _ => None,
        };
    }
    m
}

fn algebra(report: &mut Report) -> u64 {
    let names = ["SpellCheck", "BoringWords", "NoSuchRuleXyz"];
    let curated = LintGroupConfig::new_curated();
    let cur = cfg_map(&curated);
    let cur_val = |k: &str| cur.get(k).cloned().flatten();
    let mut n = 0u64;
    let mut all: Vec<[u8; 3]> = vec![];
    for a in 0..4u8 {
        for b in 0..4u8 {
            for c in 0..4u8 {
                all.push([a, b, c]);
            }
        }
    }
    let mut fail = |sig: &str, case: Value, detail: Value, report: &mut Report| {
        report.violation(Violation { sig: format!("algebra:{sig}"), case, detail });
    };
    for a in &all {
        let ca = mk_cfg(a, &names);
        let ma = model(a);
        n += 1;
        let case = json!({"engine":"E2","object":"LintGroupConfig","config": cfg_map(&ca)});
        // is_rule_enabled
        for i in 0..3 {
            if ca.is_rule_enabled(names[i]) != (ma[i] == Some(true)) {
                fail("is_rule_enabled", case.clone(), json!({"key": names[i]}), report);
            }
        }
        // JSON round trip
        let js = serde_json::to_string(&ca).unwrap();
        let back: Result<LintGroupConfig, _> = serde_json::from_str(&js);
        match back {
            Ok(b) if b == ca && serde_json::to_string(&b).unwrap() == js => {}
            _ => fail("json-round-trip", case.clone(), json!({"json": js}), report),
        }
        // through the LSP settings object
        let lsp = json!({"harper-ls": {"linters": serde_json::to_value(&ca).unwrap()}});
        match crate::config::Config::from_lsp_config(lsp) {
            Ok(c) if c.lint_config == ca => {}
            Ok(c) => fail("lsp-settings-round-trip", case.clone(), json!({"got": cfg_map(&c.lint_config)}), report),
            Err(e) => fail("lsp-settings-rejected", case.clone(), json!({"error": e.to_string()}), report),
        }
        // fill_with_curated: user value if set, else curated
        let mut f = ca.clone();
        f.fill_with_curated();
        for i in 0..3 {
            let want = ma[i].or(cur_val(names[i])).unwrap_or(false);
            if f.is_rule_enabled(names[i]) != want {
                fail("fill_with_curated", case.clone(), json!({"key": names[i], "got": f.is_rule_enabled(names[i]), "want": want}), report);
            }
        }
        // every curated key the user did not mention keeps its curated value
        for (k, v) in &cur {
            if names.contains(&k.as_str()) {
                continue;
            }
            if f.is_rule_enabled(k) != v.unwrap_or(false) {
                fail("fill_with_curated-changed-unmentioned-rule", case.clone(), json!({"key": k}), report);
                break;
            }
        }
        // clear
        let mut c = ca.clone();
        c.clear();
        if names.iter().any(|k| c.is_rule_enabled(k)) {
            fail("clear", case.clone(), json!({}), report);
        }
        // set_rule_enabled_if_unset / unset
        for i in 0..3 {
            let mut s = ca.clone();
            s.set_rule_enabled_if_unset(names[i], true);
            // "unset" means the key is absent; a key present with null counts as present (as-is)
            let want = if a[i] == 0 { true } else { ma[i] == Some(true) };
            if s.is_rule_enabled(names[i]) != want {
                fail("set_rule_enabled_if_unset", case.clone(), json!({"key": names[i]}), report);
            }
            let mut u = ca.clone();
            u.unset_rule_enabled(names[i]);
            if u.is_rule_enabled(names[i]) {
                fail("unset_rule_enabled", case.clone(), json!({"key": names[i]}), report);
            }
        }
        // merge_from, all ordered pairs
        for b in &all {
            n += 1;
            let mut x = ca.clone();
            let mut y = mk_cfg(b, &names);
            let mb = model(b);
            x.merge_from(&mut y);
            for i in 0..3 {
                let want = mb[i].or(ma[i]);
                if x.is_rule_enabled(names[i]) != (want == Some(true)) {
                    fail("merge_from-not-right-biased", json!({"engine":"E2","object":"LintGroupConfig","left": cfg_map(&ca), "right": cfg_map(&mk_cfg(b, &names))}), json!({"key": names[i], "got": x.is_rule_enabled(names[i]), "want": want}), report);
                }
                if y.is_rule_enabled(names[i]) {
                    fail("merge_from-did-not-empty-other", json!({"engine":"E2","object":"LintGroupConfig","right": cfg_map(&mk_cfg(b, &names))}), json!({}), report);
                }
            }
            // associativity of overlays (merge order): (a <- b) <- c  ==  a <- (b <- c), third = a's mirror
            let mut l = ca.clone();
            let mut b1 = mk_cfg(b, &names);
            let mut c1 = mk_cfg(&[a[2], a[0], a[1]], &names);
            l.merge_from(&mut b1);
            l.merge_from(&mut c1);
            let mut r2 = mk_cfg(b, &names);
            let mut c2 = mk_cfg(&[a[2], a[0], a[1]], &names);
            r2.merge_from(&mut c2);
            let mut r = ca.clone();
            r.merge_from(&mut r2);
            for i in 0..3 {
                if l.is_rule_enabled(names[i]) != r.is_rule_enabled(names[i]) {
                    fail("merge_from-not-associative", json!({"engine":"E2","object":"LintGroupConfig","a": cfg_map(&ca), "b": cfg_map(&mk_cfg(b, &names))}), json!({"key": names[i]}), report);
                }
            }
        }
    }
    // Large configurations (as many entries as the curated one, or more): a complete explicit
    // configuration with ONE curated rule left out and j unknown names added, no nulls; and the
    // same with a null. The overlay must still supply the missing rule's curated default, keep
    // every explicit value and stay harmless for the unknown names.
    let keys: Vec<String> = cur.keys().cloned().collect();
    for (ki, k) in keys.iter().enumerate() {
        for unknown in 0..3usize {
            for flip in [false, true] {
                n += 1;
                let mut c = LintGroupConfig::new_curated();
                // an explicit complete configuration; optionally every value flipped
                for k2 in &keys {
                    let v = cur_val(k2).unwrap_or(false);
                    c.set_rule_enabled(k2, if flip { !v } else { v });
                }
                c.unset_rule_enabled(k);
                for j in 0..unknown {
                    c.set_rule_enabled(format!("NoSuchRule{j}"), true);
                }
                let mut f = c.clone();
                f.fill_with_curated();
                let want_missing = cur_val(k).unwrap_or(false);
                let case = json!({"engine":"E2","object":"LintGroupConfig","config": format!("complete explicit configuration ({}), `{k}` left out, {unknown} unknown rule name(s) added", if flip { "every curated value flipped" } else { "curated values" })});
                if f.is_rule_enabled(k) != want_missing {
                    fail("fill_with_curated:large-configuration-misses-the-unmentioned-rule", case.clone(), json!({"key": k, "got": f.is_rule_enabled(k), "want": want_missing}), report);
                }
                let other = &keys[(ki + 1) % keys.len()];
                let want_other = if flip { !cur_val(other).unwrap_or(false) } else { cur_val(other).unwrap_or(false) };
                if f.is_rule_enabled(other) != want_other {
                    fail("fill_with_curated:large-configuration-overrides-an-explicit-choice", case, json!({"key": other}), report);
                }
            }
        }
    }
    n
}

// ---------------------------------------------------------------------------------------------

pub fn run(tier: Tier) -> i32 {
    let mut report = Report::new("C11", tier, "model_checking");
    let curated = FstDictionary::curated();
    let proto = LintGroup::new_curated(curated.clone(), Dialect::American);
    let keys = rule_keys(&proto);
    report.set("rule_keys", keys.len() as u64);
    if keys.len() < 200 {
        report.machinery(format!("only {} rule keys", keys.len()));
    }
    let h = crate::harvest::harvest();

    // 1. per-rule lints on every candidate document (single-rule groups)
    let mut cands: Vec<String> = h.seeds.iter().filter(|s| s.chars().count() >= 6).cloned().collect();
    // lower-cased proper-noun phrases trigger the capitalisation rule groups
    let lowered: Vec<String> = h
        .seeds
        .iter()
        .filter(|s| s.chars().any(|c| c.is_uppercase()) && s.chars().count() >= 4 && s.chars().count() <= 60)
        .map(|s| format!("We saw {} there.", s.to_lowercase()))
        .collect();
    cands.extend(lowered);
    cands.push("This is the 2ND and the 3RD time I want to to do it, in to the day.".into());
    // generated seeds for the dictionary-driven and structural rules
    cands.push("this sentence keeps going and going with many words so that it becomes much longer than forty words in total which is what the long sentence rule needs in order to fire at all when we run the whole group of rules over it today".into());
    cands.push("He said \"this is unclosed.".into());
    cands.push("i visited paris and microsoft in january with john.".into());
    cands.push("The 2st time, I payed 5$ and there there was teh problem, alot.".into());
    // short harvested trigger words that are no sentence by themselves (`todo`) in a frame
    for w in h.vocab.iter().filter(|w| w.chars().count() < 6) {
        cands.push(format!("Add it to my {w} list."));
    }
    let nd = cands.len();
    let per_doc: Vec<(Vec<(usize, Vec<Key>)>, bool)> = par_chunks(nd as u64, 40, ncpu(), |s, e| {
        let mut g = LintGroup::new_curated(curated.clone(), Dialect::American);
        let mut out = vec![];
        for i in s..e {
            let text = &cands[i as usize];
            let mut fired: Vec<(usize, Vec<Key>)> = vec![];
            let mut ok = true;
            let doc = match catch(|| Document::new_plain_english(text, &*curated)) {
                Ok(d) => d,
                Err(_) => {
                    out.push((vec![], false));
                    continue;
                }
            };
            for (ki, k) in keys.iter().enumerate() {
                g.set_all_rules_to(Some(false));
                g.config.set_rule_enabled(k, true);
                match catch(|| g.lint(&doc)) {
                    Ok(l) => {
                        if !l.is_empty() {
                            fired.push((ki, l.iter().map(key).collect()));
                        }
                    }
                    Err(_) => {
                        ok = false;
                        g = LintGroup::new_curated(curated.clone(), Dialect::American);
                    }
                }
            }
            out.push((fired, ok));
        }
        out
    })
    .into_iter()
    .flatten()
    .collect();

    // 2. greedy cover: documents such that every rule that fires anywhere fires in the cover
    let mut fires_anywhere: BTreeSet<usize> = BTreeSet::new();
    for (f, ok) in &per_doc {
        if *ok {
            for (ki, _) in f {
                fires_anywhere.insert(*ki);
            }
        }
    }
    let mut uncovered = fires_anywhere.clone();
    let mut cover: Vec<usize> = vec![];
    let max_docs = tier.pick(220, 600);
    while !uncovered.is_empty() && cover.len() < max_docs {
        let mut best = None;
        let mut best_gain = 0;
        for (di, (f, ok)) in per_doc.iter().enumerate() {
            if !*ok || cover.contains(&di) {
                continue;
            }
            let gain = f.iter().filter(|(ki, _)| uncovered.contains(ki)).count();
            // prefer documents where several rules co-fire, short ones first
            if gain > best_gain {
                best_gain = gain;
                best = Some(di);
            }
        }
        let Some(b) = best else { break };
        for (ki, _) in &per_doc[b].0 {
            uncovered.remove(ki);
        }
        cover.push(b);
    }
    // add the documents with the most co-firing rules
    let mut by_cofire: Vec<usize> = (0..nd).filter(|d| per_doc[*d].1 && !cover.contains(d)).collect();
    by_cofire.sort_by_key(|d| std::cmp::Reverse(per_doc[*d].0.len()));
    for d in by_cofire.into_iter().take(tier.pick(40, 200)) {
        cover.push(d);
    }
    let never: Vec<&String> = keys.iter().enumerate().filter(|(i, _)| !fires_anywhere.contains(i)).map(|(_, k)| k).collect();
    report.set("rules_firing_on_some_document", fires_anywhere.len() as u64);
    report.set("rules_never_exercised", json!(never));
    report.set("covering_documents", cover.len() as u64);
    if (fires_anywhere.len() as f64) < 0.85 * keys.len() as f64 {
        report.machinery(format!("only {} of {} rules fire on the harvested documents", fires_anywhere.len(), keys.len()));
    }

    // 3. configurations: bases and deviations; one long-lived LintGroup per worker, configs in the
    //    outer loop and documents in the inner loop so that the chunk cache is hot across configs.
    #[derive(Clone)]
    struct Cfg {
        name: String,
        enabled: BTreeSet<usize>,
        /// how to establish it: 0 = set every key explicitly, 1 = via unset+defaults (curated), 2 = with unknown keys
        unknown_keys: bool,
        /// keys that are left out of the configuration altogether (absent = not enabled at this
        /// level); `None` = every key is written explicitly
        absent: Option<BTreeSet<usize>>,
    }
    let cur_cfg = cfg_map(&proto.config);
    let curated_on: BTreeSet<usize> = keys.iter().enumerate().filter(|(_, k)| cur_cfg.get(*k).cloned().flatten() == Some(true)).map(|(i, _)| i).collect();
    let all_on: BTreeSet<usize> = (0..keys.len()).collect();
    let mut cfgs: Vec<Cfg> = vec![
        Cfg { name: "all-off".into(), enabled: BTreeSet::new(), unknown_keys: false, absent: None },
        Cfg { name: "all-on".into(), enabled: all_on.clone(), unknown_keys: false, absent: None },
        Cfg { name: "curated".into(), enabled: curated_on.clone(), unknown_keys: false, absent: None },
        Cfg { name: "curated+unknown-keys".into(), enabled: curated_on.clone(), unknown_keys: true, absent: None },
    ];
    for (bname, base) in [("all-off", BTreeSet::new()), ("all-on", all_on.clone()), ("curated", curated_on.clone())] {
        for ki in 0..keys.len() {
            let mut e = base.clone();
            if e.contains(&ki) {
                e.remove(&ki);
            } else {
                e.insert(ki);
            }
            cfgs.push(Cfg { name: format!("{bname}^{}", keys[ki]), enabled: e, unknown_keys: false, absent: None });
        }
    }
    // sparse configurations: a rule the configuration does not mention at all (what a JSON object
    // written by hand looks like): one key alone in an otherwise empty configuration; the curated
    // configuration with one key removed; every other key written
    for ki in 0..keys.len() {
        let only: BTreeSet<usize> = [ki].into_iter().collect();
        let mut rest = all_on.clone();
        rest.remove(&ki);
        cfgs.push(Cfg { name: format!("sparse-only:{}", keys[ki]), enabled: only, unknown_keys: false, absent: Some(rest) });
        let mut e = curated_on.clone();
        e.remove(&ki);
        cfgs.push(Cfg { name: format!("curated-without-key:{}", keys[ki]), enabled: e, unknown_keys: false, absent: Some([ki].into_iter().collect()) });
    }
    let sparse_alternating: BTreeSet<usize> = all_on.iter().filter(|i| *i % 3 == 0).cloned().collect();
    cfgs.push(Cfg { name: "sparse:every-third-key-absent".into(), enabled: all_on.difference(&sparse_alternating).cloned().collect(), unknown_keys: false, absent: Some(sparse_alternating) });
    // pairs of co-firing rules: only the pair on / everything but the pair on, and 2-partitions
    let mut pairs: BTreeSet<(usize, usize)> = BTreeSet::new();
    for d in &cover {
        let f = &per_doc[*d].0;
        for a in 0..f.len() {
            for b in a + 1..f.len() {
                pairs.insert((f[a].0, f[b].0));
            }
        }
    }
    let pair_cap = tier.pick(300, 5000);
    for (a, b) in pairs.iter().take(pair_cap) {
        let e: BTreeSet<usize> = [*a, *b].into_iter().collect();
        cfgs.push(Cfg { name: format!("only:{}+{}", keys[*a], keys[*b]), enabled: e.clone(), unknown_keys: false, absent: None });
        let mut rest = all_on.clone();
        rest.remove(a);
        rest.remove(b);
        cfgs.push(Cfg { name: format!("all-on-minus:{}+{}", keys[*a], keys[*b]), enabled: rest, unknown_keys: false, absent: None });
    }
    // 2-partitions of the enabled set: halves by index parity / first half
    let evens: BTreeSet<usize> = all_on.iter().filter(|i| *i % 2 == 0).cloned().collect();
    let odds: BTreeSet<usize> = all_on.iter().filter(|i| *i % 2 == 1).cloned().collect();
    cfgs.push(Cfg { name: "partition:even".into(), enabled: evens, unknown_keys: false, absent: None });
    cfgs.push(Cfg { name: "partition:odd".into(), enabled: odds, unknown_keys: false, absent: None });
    report.set("configurations", cfgs.len() as u64);
    report.set("co_firing_pairs", pairs.len() as u64);

    let ncfg = cfgs.len() as u64;
    let docs: Vec<(String, &Vec<(usize, Vec<Key>)>)> = cover.iter().map(|d| (cands[*d].clone(), &per_doc[*d].0)).collect();
    let res = par_chunks(ncfg, 24, ncpu(), |s, e| {
        let mut g = LintGroup::new_curated(curated.clone(), Dialect::American);
        let parsed: Vec<Document> = docs.iter().map(|(t, _)| Document::new_plain_english(t, &*curated)).collect();
        let mut viols: Vec<Violation> = vec![];
        let mut transitions = 0u64;
        let mut states: BTreeSet<u64> = BTreeSet::new();
        for ci in s..e {
            let c = &cfgs[ci as usize];
            // establish the configuration on the long-lived group
            for (ki, k) in keys.iter().enumerate() {
                if c.absent.as_ref().is_some_and(|a| a.contains(&ki)) {
                    g.config.unset_rule_enabled(k);
                } else {
                    g.config.set_rule_enabled(k, c.enabled.contains(&ki));
                }
            }
            if c.unknown_keys {
                g.config.set_rule_enabled("NoSuchRuleXyz", true);
                g.config.set_rule_enabled("", true);
            } else {
                g.config.unset_rule_enabled("NoSuchRuleXyz");
                g.config.unset_rule_enabled("");
            }
            for (di, (text, fired)) in docs.iter().enumerate() {
                transitions += 1;
                let got = match catch(|| g.lint(&parsed[di])) {
                    Ok(l) => l,
                    Err(_) => {
                        g = LintGroup::new_curated(curated.clone(), Dialect::American);
                        continue;
                    }
                };
                let mut got: Vec<Key> = got.iter().map(key).collect();
                got.sort();
                let mut want: Vec<Key> = fired.iter().filter(|(ki, _)| c.enabled.contains(ki)).flat_map(|(_, l)| l.iter().cloned()).collect();
                want.sort();
                states.insert(h64(&(ci, di, got.len())));
                if got != want {
                    let missing: Vec<&Key> = want.iter().filter(|k| !got.contains(k)).collect();
                    let extra: Vec<&Key> = got.iter().filter(|k| !want.contains(k)).collect();
                    // attribute: which single rules own the differing lints
                    let owner = |k: &Key| fired.iter().find(|(_, l)| l.contains(k)).map(|(ki, _)| keys[*ki].clone()).unwrap_or("?".into());
                    let what = if !extra.is_empty() && extra.iter().any(|k| !c.enabled.iter().any(|ki| keys[*ki] == owner(k))) { "disabled-rule-produced-lints" } else if !missing.is_empty() { "enabled-rule-lost-lints" } else { "extra-lints" };
                    if viols.len() < 12 {
                        viols.push(Violation {
                            sig: format!("additivity:{what}"),
                            case: json!({"engine":"E2","object":"LintGroup","config": c.name, "text": text}),
                            detail: json!({"missing": missing.iter().map(|k| json!({"lint": k, "rule": owner(k)})).collect::<Vec<_>>(), "extra": extra.iter().map(|k| json!({"lint": k, "rule": owner(k)})).collect::<Vec<_>>()}),
                        });
                    }
                }
            }
        }
        (transitions, states, viols)
    });
    let mut transitions = 0;
    let mut states: BTreeSet<u64> = BTreeSet::new();
    for (t, st, vs) in res {
        transitions += t;
        states.extend(st);
        for v in vs {
            report.violation(v);
        }
    }
    let alg = algebra(&mut report);
    report.set("overlay_algebra_cases", alg);
    report.set("states", states.len() as u64 + alg);
    report.set("transitions", transitions + alg);
    report.set("traces_validated_against_impl", transitions + alg);
    report.outcomes.extend(states.iter().take(2000));
    report.sample(json!({"engine":"E2","object":"LintGroup","config": cfgs.get(5).map(|c| c.name.clone()), "text": docs.first().map(|d| d.0.clone())}));
    report.sample(json!({"engine":"E2","object":"LintGroupConfig","left": {"SpellCheck": false}, "right": {"SpellCheck": null, "NoSuchRuleXyz": true}, "op": "merge_from"}));
    report.set("exhaustive", true);
    report.assume("configurations are bounded to single deviations from three bases, pairs of co-firing rules and two 2-partitions; all 2^290 assignments are not enumerated - additivity per rule makes single and pairwise deviations the generating set");
    report.assume("documents: greedy cover of the harvested seeds such that every rule that fires anywhere fires in the cover");
    report.finish()
}
