//! Engine E3: the real harper-ls `Backend` behind the real tower-lsp router, driven in-process by a
//! controlled executor. The harness owns every poll, every client answer, every file-I/O completion
//! and the admission of every client message, so that message histories and handler schedules can
//! be enumerated and replayed.
//!
//! Sources of nondeterminism and how each is owned:
//!  * task polling — handler futures (`service.call(req)`) are polled by hand with flag wakers;
//!    woken tasks run in wake order (FIFO), as tower-lsp's `buffer_unordered` does;
//!  * client answers — `workspace/configuration` / `client/registerCapability` requests read from
//!    the loopback socket are held until the explorer answers them;
//!  * file I/O — `tokio::fs` runs on the blocking pool, which is limited to ONE thread that is kept
//!    occupied by a gate job while a handler is being polled; after the poll the gate is opened,
//!    the queued operations run to completion, and the wake-ups they cause become explicit,
//!    deferrable `Io(task)` events;
//!  * admission — the next client message is admitted only when the explorer says so (at most 4
//!    in flight).

use crate::backend::Backend;
use crate::config::Config;
use futures::{Sink, Stream};
use serde_json::{Value, json};
use std::collections::VecDeque;
use std::future::Future;
use std::path::PathBuf;
use std::pin::Pin;
use std::sync::atomic::{AtomicBool, AtomicU64, Ordering};
use std::sync::{Arc, Condvar, Mutex};
use std::task::{Context, Poll, Wake, Waker};
use tower_lsp::jsonrpc::{Id, Request, Response};
use tower_lsp::{ClientSocket, LspService};
use tower_service::Service;

static WAKE_SEQ: AtomicU64 = AtomicU64::new(1);

pub struct WakeFlag {
    woken: AtomicBool,
    seq: AtomicU64,
}
impl Wake for WakeFlag {
    fn wake(self: Arc<Self>) {
        self.wake_by_ref()
    }
    fn wake_by_ref(self: &Arc<Self>) {
        if !self.woken.swap(true, Ordering::SeqCst) {
            self.seq.store(WAKE_SEQ.fetch_add(1, Ordering::SeqCst), Ordering::SeqCst);
        }
    }
}

struct Gate {
    state: Arc<(Mutex<bool>, Condvar)>,
}
impl Gate {
    fn new() -> Self {
        Self { state: Arc::new((Mutex::new(true), Condvar::new())) }
    }
    fn close(&self, rt: &tokio::runtime::Runtime) {
        *self.state.0.lock().unwrap() = false;
        let st = self.state.clone();
        rt.spawn_blocking(move || {
            let mut open = st.0.lock().unwrap();
            while !*open {
                open = st.1.wait(open).unwrap();
            }
        });
    }
    fn open(&self) {
        *self.state.0.lock().unwrap() = true;
        self.state.1.notify_all();
    }
}

type TaskFut = Pin<Box<dyn Future<Output = Result<Option<Response>, tower_lsp::ExitedError>> + Send>>;

pub struct Task {
    pub label: String,
    fut: Option<TaskFut>,
    flag: Arc<WakeFlag>,
    pub done: bool,
    pub response: Option<Response>,
    /// classification state: 0 = not queued, 1 = in ready queue, 2 = in pending_io
    queued: u8,
}

#[derive(Clone, Debug, PartialEq)]
pub enum Event {
    Poll(usize),
    Io(usize),
    Answer(i64),
    Admit,
}

impl Event {
    pub fn name(&self) -> String {
        match self {
            Event::Poll(t) => format!("poll:T{t}"),
            Event::Io(t) => format!("io:T{t}"),
            Event::Answer(i) => format!("answer:#{i}"),
            Event::Admit => "admit".into(),
        }
    }
}

pub struct Held {
    pub id: i64,
    pub method: String,
    pub params: Value,
    /// the task whose poll produced this request
    pub owner: Option<usize>,
}

pub struct Server {
    rt: tokio::runtime::Runtime,
    service: LspService<Backend>,
    socket: ClientSocket,
    gate: Gate,
    pub tasks: Vec<Task>,
    pub ready: VecDeque<usize>,
    pub pending_io: Vec<usize>,
    pub held: VecDeque<Held>,
    /// server -> client notifications in arrival order: (method, params)
    pub log: Vec<(String, Value)>,
    pub admit_queue: VecDeque<(String, Request)>,
    next_id: i64,
    /// what the client answers to workspace/configuration (read at answer time)
    pub settings: Value,
    pub polls: u64,
    pub trace: Vec<String>,
    /// batch mode: messages sent back-to-back are admitted as soon as a slot is free (the default
    /// choice), as tower-lsp's read loop does; otherwise admission has the lowest priority
    pub admit_first: bool,
    /// task being (or last) polled: server->client requests read right after belong to it
    cur_task: Option<usize>,
    /// (request id, owner task) for every request answered so far, in answer order
    pub answered: Vec<(i64, Option<usize>, usize)>,
}

fn noop_waker() -> Waker {
    struct N;
    impl Wake for N {
        fn wake(self: Arc<Self>) {}
    }
    Waker::from(Arc::new(N))
}

impl Server {
    pub fn new(config: Config, settings: Value) -> Self {
        let rt = tokio::runtime::Builder::new_current_thread()
            .enable_all()
            .max_blocking_threads(1)
            .build()
            .expect("runtime");
        let (service, socket) = LspService::new(|client| Backend::new(client, config));
        Self {
            rt,
            service,
            socket,
            gate: Gate::new(),
            tasks: vec![],
            ready: VecDeque::new(),
            pending_io: vec![],
            held: VecDeque::new(),
            log: vec![],
            admit_queue: VecDeque::new(),
            next_id: 1000,
            settings,
            polls: 0,
            trace: vec![],
            admit_first: false,
            cur_task: None,
            answered: vec![],
        }
    }

    pub fn request(&mut self, method: &'static str, params: Value) -> Request {
        self.next_id += 1;
        // a method without parameters (shutdown) must not carry `params: null`: the router would
        // answer "invalid params" without ever calling the handler
        if params.is_null() {
            return Request::build(method).id(self.next_id).finish();
        }
        Request::build(method).id(self.next_id).params(params).finish()
    }
    pub fn notification(method: &'static str, params: Value) -> Request {
        Request::build(method).params(params).finish()
    }

    pub fn in_flight(&self) -> usize {
        self.tasks.iter().filter(|t| !t.done).count()
    }

    pub fn enqueue(&mut self, label: &str, req: Request) {
        self.admit_queue.push_back((label.to_string(), req));
    }

    /// Newly set wake flags: classify as internal (ready, FIFO by wake sequence) or I/O (deferred).
    fn collect_wakes(&mut self, io: bool) {
        let mut newly: Vec<(u64, usize)> = vec![];
        for (i, t) in self.tasks.iter().enumerate() {
            if !t.done && t.queued == 0 && t.flag.woken.load(Ordering::SeqCst) {
                newly.push((t.flag.seq.load(Ordering::SeqCst), i));
            }
        }
        newly.sort();
        for (_, i) in newly {
            if io {
                self.tasks[i].queued = 2;
                self.pending_io.push(i);
            } else {
                self.tasks[i].queued = 1;
                self.ready.push_back(i);
            }
        }
    }

    /// Let queued blocking operations run to completion, then re-arm the gate.
    fn settle_io(&mut self) {
        self.gate.open();
        let m = self.rt.metrics();
        let mut spins = 0u64;
        loop {
            let busy = m.blocking_queue_depth() != 0 || m.num_blocking_threads() != m.num_idle_blocking_threads();
            if !busy {
                break;
            }
            spins += 1;
            if spins < 200 {
                std::thread::yield_now();
            } else {
                std::thread::sleep(std::time::Duration::from_micros(50));
            }
        }
        self.gate.close(&self.rt);
    }

    /// Read everything the server has sent to the client.
    fn drain_socket(&mut self) {
        let w = noop_waker();
        let mut cx = Context::from_waker(&w);
        loop {
            let item = Pin::new(&mut self.socket).poll_next(&mut cx);
            match item {
                Poll::Ready(Some(req)) => {
                    let (method, id, params) = req.into_parts();
                    match id {
                        Some(Id::Number(n)) => self.held.push_back(Held { id: n, method: method.to_string(), params: params.unwrap_or(Value::Null), owner: self.cur_task }),
                        Some(_) => {}
                        None => self.log.push((method.to_string(), params.unwrap_or(Value::Null))),
                    }
                    // reading frees channel capacity: a sender may have been woken
                    self.collect_wakes(false);
                }
                _ => break,
            }
        }
    }

    fn after_step(&mut self) {
        // wakes that happened synchronously during the step are internal
        self.collect_wakes(false);
        self.drain_socket();
        self.settle_io();
        // wakes that arrived while the blocking pool drained are I/O completions
        self.collect_wakes(true);
        self.drain_socket();
    }

    pub fn enabled(&self) -> Vec<Event> {
        let mut v = vec![];
        if self.admit_first && !self.admit_queue.is_empty() && self.in_flight() < 4 {
            v.push(Event::Admit);
        }
        if let Some(t) = self.ready.front() {
            v.push(Event::Poll(*t));
        }
        for t in &self.pending_io {
            v.push(Event::Io(*t));
        }
        for h in &self.held {
            v.push(Event::Answer(h.id));
        }
        if !self.admit_first && !self.admit_queue.is_empty() && self.in_flight() < 4 {
            v.push(Event::Admit);
        }
        v
    }

    pub fn quiescent(&self) -> bool {
        self.in_flight() == 0 && self.held.is_empty() && self.admit_queue.is_empty()
    }

    fn poll_task(&mut self, i: usize) {
        self.cur_task = Some(i);
        let _guard = self.rt.enter();
        let t = &mut self.tasks[i];
        t.queued = 0;
        t.flag.woken.store(false, Ordering::SeqCst);
        let waker = Waker::from(t.flag.clone());
        let mut cx = Context::from_waker(&waker);
        self.polls += 1;
        if let Some(f) = t.fut.as_mut() {
            if let Poll::Ready(r) = f.as_mut().poll(&mut cx) {
                t.done = true;
                t.fut = None;
                t.response = r.ok().flatten();
            }
        }
    }

    pub fn step(&mut self, ev: &Event) -> Result<(), String> {
        self.trace.push(ev.name());
        match ev {
            Event::Poll(i) => {
                if self.ready.front() != Some(i) {
                    return Err(format!("poll:T{i} is not at the head of the ready queue"));
                }
                self.ready.pop_front();
                self.poll_task(*i);
            }
            Event::Io(i) => {
                let Some(p) = self.pending_io.iter().position(|t| t == i) else {
                    return Err(format!("io:T{i} is not pending"));
                };
                self.pending_io.remove(p);
                self.tasks[*i].queued = 1;
                self.ready.push_back(*i);
                return Ok(()); // delivery only: nothing ran
            }
            Event::Answer(id) => {
                let Some(p) = self.held.iter().position(|h| h.id == *id) else {
                    return Err(format!("answer:#{id} is not held"));
                };
                let h = self.held.remove(p).unwrap();
                self.answered.push((h.id, h.owner, self.trace.len()));
                let result = match h.method.as_str() {
                    "workspace/configuration" => json!([self.settings.clone()]),
                    _ => Value::Null,
                };
                let w = noop_waker();
                let mut cx = Context::from_waker(&w);
                let _ = Pin::new(&mut self.socket).poll_ready(&mut cx);
                let _ = Pin::new(&mut self.socket).start_send(Response::from_ok(Id::Number(*id), result));
            }
            Event::Admit => {
                let Some((label, req)) = self.admit_queue.pop_front() else {
                    return Err("nothing to admit".into());
                };
                let w = noop_waker();
                let mut cx = Context::from_waker(&w);
                let _ = self.service.poll_ready(&mut cx);
                let fut: TaskFut = {
                    let _guard = self.rt.enter();
                    self.service.call(req)
                };
                let flag = Arc::new(WakeFlag { woken: AtomicBool::new(false), seq: AtomicU64::new(0) });
                self.tasks.push(Task { label, fut: Some(fut), flag, done: false, response: None, queued: 0 });
                let i = self.tasks.len() - 1;
                // a newly admitted task is polled in admission order
                self.tasks[i].queued = 1;
                self.ready.push_back(i);
                return Ok(());
            }
        }
        self.after_step();
        Ok(())
    }

    /// Run with the default (first-come-first-served) choice until quiescent.
    pub fn run_default(&mut self) -> Result<(), String> {
        let mut guard = 0;
        while !self.quiescent() {
            let evs = self.enabled();
            let Some(ev) = evs.first().cloned() else {
                return Err(format!("deadlock: {} task(s) in flight, nothing enabled; trace tail {:?}", self.in_flight(), self.trace.iter().rev().take(8).collect::<Vec<_>>()));
            };
            self.step(&ev)?;
            guard += 1;
            if guard > 20000 {
                return Err("livelock: more than 20000 steps".into());
            }
        }
        Ok(())
    }

    /// Run following `choices` (index into enabled() at each choice point), default beyond.
    /// Returns the number of enabled events at each choice point.
    pub fn run_choices(&mut self, choices: &[usize]) -> Result<Vec<usize>, String> {
        let mut widths = vec![];
        let mut k = 0;
        let mut guard = 0;
        while !self.quiescent() {
            let evs = self.enabled();
            if evs.is_empty() {
                return Err(format!("deadlock: {} task(s) in flight, nothing enabled", self.in_flight()));
            }
            let c = choices.get(k).copied().unwrap_or(0);
            if c >= evs.len() {
                return Err(format!("replay divergence at choice {k}: index {c} of {}", evs.len()));
            }
            widths.push(evs.len());
            let ev = evs[c].clone();
            self.step(&ev)?;
            k += 1;
            guard += 1;
            if guard > 20000 {
                return Err("livelock: more than 20000 steps".into());
            }
        }
        Ok(widths)
    }

    /// Run a future of the harness's own (e.g. the real `load_dict`) with the gate open.
    pub fn block_on<F: Future>(&mut self, f: F) -> F::Output {
        self.gate.open();
        let r = self.rt.block_on(f);
        // wait for stragglers, re-arm
        self.settle_io();
        r
    }

    pub fn backend(&self) -> &Backend {
        self.service.inner()
    }

    /// initialize + initialized handshake under the default schedule.
    pub fn boot(&mut self) -> Result<(), String> {
        self.gate.close(&self.rt);
        let init = self.request("initialize", json!({"capabilities": {}}));
        self.enqueue("initialize", init);
        self.run_default()?;
        self.enqueue("initialized", Self::notification("initialized", json!({})));
        self.run_default()
    }

    pub fn last_diagnostics(&self, uri: &str) -> Option<Value> {
        self.log
            .iter()
            .rev()
            .find(|(m, p)| m == "textDocument/publishDiagnostics" && p["uri"].as_str() == Some(uri))
            .map(|(_, p)| p["diagnostics"].clone())
    }
}

impl Drop for Server {
    fn drop(&mut self) {
        self.gate.open();
    }
}

// ---------------------------------------------------------------------------------------------
// Scratch world: directories and settings

pub struct World {
    pub root: PathBuf,
    pub user_dict: PathBuf,
    pub file_dict_dir: PathBuf,
    pub stats: PathBuf,
    pub docs_dir: PathBuf,
}

static WORLD_SEQ: AtomicU64 = AtomicU64::new(0);

impl World {
    pub fn new(tag: &str) -> Self {
        let n = WORLD_SEQ.fetch_add(1, Ordering::SeqCst);
        let root = PathBuf::from(format!("{}/target/tmp/e3/{}-{}-{}", crate::util::VERIF_ROOT, std::process::id(), tag, n));
        let _ = std::fs::remove_dir_all(&root);
        std::fs::create_dir_all(root.join("docs")).unwrap();
        Self {
            user_dict: root.join("cfg/dictionary.txt"),
            file_dict_dir: root.join("data/file_dictionaries"),
            stats: root.join("data/stats.txt"),
            docs_dir: root.join("docs"),
            root,
        }
    }
    pub fn config(&self) -> Config {
        let mut c = Config::default();
        c.user_dict_path = self.user_dict.clone();
        c.file_dict_path = self.file_dict_dir.clone();
        c.stats_path = self.stats.clone();
        c
    }
    pub fn settings(&self, linters: Value, dialect: &str) -> Value {
        json!({"harper-ls": {
            "userDictPath": self.user_dict.to_string_lossy(),
            "fileDictPath": self.file_dict_dir.to_string_lossy(),
            "statsPath": self.stats.to_string_lossy(),
            "linters": linters,
            "dialect": dialect,
        }})
    }
    /// Settings of configuration `c` of `c09::CONFIGS` / `CONFIG_EXTRAS`.
    pub fn settings_for(&self, c: usize) -> Value {
        let (dialect, isolate, ilt) = crate::c09::CONFIG_EXTRAS[c];
        let mut v = self.settings(serde_json::from_str(crate::c09::CONFIGS[c]).unwrap(), dialect);
        let o = v["harper-ls"].as_object_mut().unwrap();
        o.insert("isolateEnglish".into(), json!(isolate));
        o.insert("markdown".into(), json!({"IgnoreLinkTitle": ilt}));
        v
    }
    pub fn doc_path(&self, name: &str) -> PathBuf {
        self.docs_dir.join(name)
    }
    pub fn uri(&self, name: &str) -> String {
        format!("file://{}", self.doc_path(name).to_string_lossy())
    }
    pub fn cleanup(&self) {
        // under the syscall monitor the harness's own deletions would only add noise
        if std::env::var("HV_KEEP_WORLDS").is_err() {
            let _ = std::fs::remove_dir_all(&self.root);
        }
    }
}

/// Make default config/data locations point into scratch space (process-wide, set once).
pub fn sandbox_env() {
    let base = format!("{}/target/tmp/e3/home-{}", crate::util::VERIF_ROOT, std::process::id());
    let _ = std::fs::create_dir_all(&base);
    // SAFETY: called once at start-up before any thread is spawned.
    unsafe {
        std::env::set_var("HOME", &base);
        std::env::set_var("XDG_CONFIG_HOME", format!("{base}/.config"));
        std::env::set_var("XDG_DATA_HOME", format!("{base}/.local/share"));
    }
}
