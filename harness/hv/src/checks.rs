//! Per-property drivers.

use crate::harvest;
use crate::pool::{self, Job, PoolConfig};
use crate::sweep::{Mode, Sweep};
use crate::util::*;
use serde_json::json;
use std::time::Duration;

pub fn make_job(job: &str, tier: Tier) -> Option<Box<dyn Job>> {
    let h = harvest::load();
    Some(match job {
        "sweep-C01" => Box::new(Sweep::new(Mode::C01, tier, &h)),
        "sweep-C02" => Box::new(Sweep::new(Mode::C02, tier, &h)),
        "sweep-C03" => Box::new(Sweep::new(Mode::C03, tier, &h)),
        "ladder-C01" => Box::new(crate::sweep::Ladder::new(tier)),
        _ => return None,
    })
}

pub fn hang_budget(tier: Tier) -> Duration {
    Duration::from_secs(tier.pick(5, 20))
}

pub fn worker(job: &str, tier: Tier, _extra: &[String]) -> i32 {
    let Some(j) = make_job(job, tier) else {
        eprintln!("unknown job {job}");
        return 2;
    };
    // a ladder case times 6-8 inputs of growing size: it gets a larger budget
    let budget = if job.starts_with("ladder") { Duration::from_secs(tier.pick(60, 600)) } else { hang_budget(tier) };
    pool::worker_main(j, budget)
}

fn harvest_or_fail(report: &mut Report) -> harvest::Harvest {
    let h = harvest::harvest();
    harvest::save(&h);
    report.set("harvest_seed_literals", h.seeds.len() as u64);
    report.set("harvest_vocabulary", h.vocab.len() as u64);
    if h.seeds.len() < 1500 || h.vocab.len() < 1500 {
        report.machinery(format!(
            "harvest too small: {} seeds, {} words from {} files",
            h.seeds.len(),
            h.vocab.len(),
            h.files
        ));
    }
    h
}

fn run_sweep(id: &str, mode: Mode, tier: Tier, rule: &str) -> i32 {
    let mut report = Report::new(id, tier, "exploration");
    if mode == Mode::C03 {
        crate::small::c03_primitive(tier, &mut report);
    }
    let h = harvest_or_fail(&mut report);
    let unknown = crate::frontends::unknown_language_ids();
    if !unknown.is_empty() {
        report.machinery(format!(
            "language ids without a harness row: {unknown:?} (add to frontends::LANG_IDS)"
        ));
    }
    if mode == Mode::C01 && std::env::var("HV_FAMILIES").map(|f| f.contains("ladder")).unwrap_or(true) {
        let ladder = crate::sweep::Ladder::new(tier);
        report.set("pumped_ladder_units", ladder.cases.len() as u64);
        let cfg = PoolConfig { job: "ladder-C01".into(), tier, extra_args: vec![], chunk: 4, workers: ncpu() };
        pool::run_pool(&ladder, &cfg, &mut report);
        let done = report.get("evaluations");
        report.set("pumped_ladder_units_completed", done);
        // the sweep below counts its own evaluations: keep the two apart
        report.coverage.remove("evaluations");
        report.coverage.remove("distinct_nontrivial");
        report.set("ladder_evaluations", done);
        let lh = report.get("hangs_or_aborts");
        report.coverage.remove("hangs_or_aborts");
        report.set("ladder_hangs_or_aborts", lh);
    }
    let job = Sweep::new(mode, tier, &h);
    report.set(
        "families",
        json!(job.space.family_sizes().into_iter().map(|(n, c)| json!({"family": n, "cases": c})).collect::<Vec<_>>()),
    );
    report.set("front_ends", job.fes.len() as u64);
    report.set("rule", rule);
    let cfg = PoolConfig {
        job: format!("sweep-{id}"),
        tier,
        extra_args: vec![],
        chunk: 20000,
        workers: ncpu(),
    };
    pool::run_pool(&job, &cfg, &mut report);
    let total = job.n_cases();
    let stopped = report.coverage.contains_key("stopped_early_after_hangs");
    if !stopped && report.get("evaluations") != total && report.machinery_errors.is_empty() {
        // hangs/aborts are not counted as evaluations by workers
        let missing = total - report.get("evaluations").min(total);
        if missing != report.get("hangs_or_aborts") {
            report.machinery(format!(
                "evaluations {} != enumerated {} (hangs/aborts {})",
                report.get("evaluations"),
                total,
                report.get("hangs_or_aborts")
            ));
        }
    }
    report.set("exhaustive", !stopped);
    report.set("enumerated", total);
    report.assume("inputs outside the alphabets / longer than the bounds are not covered");
    report.assume("deciding build: opt-level 2, no debug assertions, no overflow checks (the shipped semantics)");
    report.finish()
}

pub fn run(id: &str, tier: Tier) -> i32 {
    match id {
        "C01" => crate::checks::c01(tier),
        "C02" => run_sweep(
            "C02",
            Mode::C02,
            tier,
            "exhaustive enumeration G1 (all strings over per-front-end alphabets up to a length bound), G2 (trigger-word pairs), G3 (bounded deviations of harvested seed sentences) x front-ends; token invariants on Parser::parse and Document tokens; non-trivial = produced >= 1 token; cases are distinct by construction of the enumeration",
        ),
        "C03" => run_sweep(
            "C03",
            Mode::C03,
            tier,
            "same enumeration as C01/C02; every lint (first pass and chunk-cache pass of a long-lived all-rules LintGroup) checked for span bounds and every suggestion against a reference splice; non-trivial = produced >= 1 lint",
        ),
        "C19" => crate::c19::run(tier),
        "C15" => crate::c15::run(tier),
        "C07" => crate::c07::run(tier),
        "C10" => crate::c10::run(tier),
        "C04" => crate::c04::run(tier),
        "C08" => crate::c08::run(tier),
        "C09" => crate::c09::run(tier),
        "C14" => crate::c14::run(tier),
        "C16" => crate::e2::run_c16(tier),
        "C05" => crate::e2::run_c05(tier),
        "C11" => crate::c11::run(tier),
        "C12" => crate::c12::run(tier),
        "C06" => crate::c06::run(tier),
        "C13" => {
            let mut r = Report::new("C13", tier, "exploration");
            r.set("rule", "all lists of <= K tagged lints with spans over positions 0..=P (zero-width, nested, touching, equal) through harper_core::remove_overlaps, plus the real all-rules lint lists of every prefix of every harvested seed sentence; oracle: sub-list, pairwise character-disjoint, every dropped lint starts inside a kept one, one-pass back-to-front fix == reference; non-trivial = at least one lint was removed");
            crate::small::c13(tier, &mut r);
            r.set("exhaustive", true);
            r.assume("span positions <= P and list length <= K for the synthetic part");
            r.finish()
        }
        "C17" => {
            let mut r = Report::new("C17", tier, "exploration");
            r.set("rule", "every integer below the tier bound, plus every three-digit ending behind prefixes of every digit length up to 2^53-1, x 4 suffixes x 4 letter-case variants x sentence frames, only CorrectNumberSuffix enabled; oracle: English ordinal rule on the decimal string; non-trivial = the written suffix is wrong (a lint is due)");
            crate::small::c17(tier, &mut r);
            r.set("exhaustive", true);
            r.assume("numbers between the exhaustive range and 2^53 are covered only through the structured family (all endings 000-999 behind ~40 prefixes)");
            r.finish()
        }
        "C18" => {
            let mut r = Report::new("C18", tier, "exploration");
            r.set("rule", "all sequences of <= L tokens from a 20-token alphabet (articles, prepositions, proper nouns with odd capitalisation, curly apostrophes, non-ASCII, hyphenated, numbers, punctuation) plus every harvested single-line seed; oracle: same length, only case (or proper-noun apostrophe) changes, first word capitalised, idempotent; non-trivial = output differs from input");
            crate::small::c18(tier, &mut r);
            r.set("exhaustive", true);
            r.assume("token alphabet and sequence length bound");
            r.finish()
        }
        _ => {
            eprintln!("unknown property {id}");
            2
        }
    }
}

pub fn c01(tier: Tier) -> i32 {
    run_sweep(
        "C01",
        Mode::C01,
        tier,
        "exhaustive enumeration G1/G2/G3 x front-ends x all-rules-on (x4 dialects on seed families, plus default and all-off configs); oracle: Document::new + LintGroup::lint returns (no panic, no abort, no hang within budget); non-trivial = produced >= 1 token",
    )
}

pub fn replay(id: &str, path: &str) -> i32 {
    let Ok(txt) = std::fs::read_to_string(path) else {
        eprintln!("cannot read {path}");
        return 2;
    };
    let v: serde_json::Value = serde_json::from_str(&txt).unwrap_or_default();
    let case = &v["case"];
    match id {
        "C01" | "C02" | "C03" => {
            let mode = match id {
                "C01" => Mode::C01,
                "C02" => Mode::C02,
                _ => Mode::C03,
            };
            let h = harvest::Harvest::default();
            let mut sw = Sweep::new(mode, Tier::Quick, &h);
            let fe = case["front_end"].as_str().unwrap_or("plain").to_string();
            let text = case["text"].as_str().unwrap_or("").to_string();
            let vs = sw.run_text(&fe, &text);
            if vs.is_empty() {
                println!("replay: no violation");
                0
            } else {
                for v in vs {
                    println!("VIOLATION property={id} replay={path}");
                    println!("  signature: {}", v.sig);
                    println!("  detail: {}", v.detail);
                }
                1
            }
        }
        "C05" | "C16" | "C09" | "C19" | "C13" | "C18" | "C07"
            if !match id {
                // cases of these sections have no single-case entry: re-enumerate (below)
                "C05" => case.get("ops").is_none(),
                "C07" => case.get("history").is_none(),
                "C19" => case["object"] == "harper_wasm::Linter" || case.get("shift").is_some(),
                _ => false,
            } =>
        {
            let problems = match id {
                "C05" => crate::e2::replay_c05(case),
                "C16" => crate::e2::replay_c16(case),
                "C09" => crate::c09::replay(case),
                "C07" => crate::c07::replay(case),
                "C19" => crate::c19::replay(case),
                "C13" => crate::small::replay_c13(case),
                _ => crate::small::replay_c18(case),
            };
            if problems.is_empty() {
                println!("replay: no violation");
                return 0;
            }
            let mut code = 1;
            for (sig, detail) in problems {
                if sig.starts_with("bad-replay-file") || sig.starts_with("machinery") || sig == "history-not-applicable" {
                    eprintln!("MACHINERY: {sig}");
                    code = 2;
                    continue;
                }
                println!("VIOLATION property={id} replay={path}");
                println!("  signature: {sig}");
                println!("  detail: {}", detail.to_string().chars().take(600).collect::<String>());
            }
            code
        }
        _ => {
            // No single-case entry point for this property: the enumeration is deterministic, so the
            // check is run again and only a violation on exactly the recorded case counts.
            let tier = v["tier"].as_str().and_then(Tier::parse).unwrap_or(Tier::Quick);
            let scratch = format!("{VERIF_ROOT}/target/tmp/replay-{}", std::process::id());
            // SAFETY: single-threaded at this point (before any worker is spawned).
            unsafe {
                std::env::set_var("HV_REPLAY_CASE", case.to_string());
                std::env::set_var("HV_REPLAY_PATH", path);
                std::env::set_var("VERIF_EVIDENCE_DIR", format!("{scratch}/evidence"));
                std::env::set_var("VERIF_REPLAY_DIR", format!("{scratch}/replays"));
            }
            let _ = std::fs::create_dir_all(format!("{scratch}/evidence"));
            println!("replay by re-enumeration ({} tier): only the recorded case is judged", tier.name());
            let code = run(id, tier);
            let _ = std::fs::remove_dir_all(&scratch);
            if code == 0 {
                println!("replay: no violation");
            }
            code
        }
    }
}
