//! C04 — only prose is checked, and it is located at its true position in the file.
//! Files are generated from per-language segment tables; the generator knows where every prose word
//! is and which regions are not prose, so the expected answer exists by construction.

use crate::frontends::{self, Class, FrontEnd};
use crate::pool::par_chunks;
use crate::util::*;
use harper_core::{Document, FstDictionary, TokenKind};
use serde_json::{Value, json};
use std::collections::BTreeSet;

#[derive(Clone, Copy, PartialEq, Eq, Debug)]
pub enum Kind {
    /// carries prose at `{}`
    Prose,
    /// nothing in it may reach the rules
    NonProse,
    /// comment with an ignore marker: dropped as a whole; must be separated from other comments
    Ignored,
    Blank,
}

#[derive(Clone, Debug)]
pub struct Seg {
    pub name: &'static str,
    pub kind: Kind,
    /// lines; `{}` is replaced by the prose of this segment; sentinels are spelled `zzq…`
    pub template: &'static str,
    pub is_comment: bool,
}

pub struct Row {
    pub prefix: &'static str,
    pub suffix: &'static str,
    pub segs: Vec<Seg>,
    /// code line used to keep an ignored comment apart from its neighbours
    pub separator: &'static str,
    pub indentable: bool,
}

const fn seg(name: &'static str, kind: Kind, template: &'static str, is_comment: bool) -> Seg {
    Seg { name, kind, template, is_comment }
}

const PROSE: &[&str] = &["alpha bravo", "charlie delta", "echo foxtrot", "golf hotel", "india juliet", "kilo lima"];

fn c_like(code: &'static str, code_s: &'static str, doc: Option<&'static str>, block: bool) -> Vec<Seg> {
    let mut v = vec![
        seg("code", Kind::NonProse, code, false),
        seg("code-with-string", Kind::NonProse, code_s, false),
        seg("line-comment", Kind::Prose, "// {}", true),
        seg("line-comment-with-url", Kind::Prose, "// {} http://zzqhost.example/zzqpath?zzqkey=1 {}", true),
        seg("line-comment-with-port-url-and-mail", Kind::Prose, "// {} http://localhost:8080/zzqpath me@example.com {}", true),
        seg("line-comment-after-code", Kind::Prose, "", true), // filled per row below
        seg("ignored-comment", Kind::Ignored, "// harper:ignore zzqalpha zzqbravo", true),
        seg("ignored-comment-2", Kind::Ignored, "// spellchecker: ignore zzqalpha", true),
        seg("blank", Kind::Blank, "", false),
    ];
    v.retain(|s| s.name != "line-comment-after-code");
    if block {
        v.push(seg("block-comment", Kind::Prose, "/* {} */", true));
        v.push(seg("block-comment-multiline", Kind::Prose, "/*\n * {}\n */", true));
    }
    if let Some(d) = doc {
        v.push(seg("doc-comment", Kind::Prose, d, true));
    }
    v
}

fn hash_like(code: &'static str, code_s: &'static str) -> Vec<Seg> {
    vec![
        seg("code", Kind::NonProse, code, false),
        seg("code-with-string", Kind::NonProse, code_s, false),
        seg("line-comment", Kind::Prose, "# {}", true),
        seg("line-comment-with-url", Kind::Prose, "# {} https://zzqhost.example/zzqpath {}", true),
        seg("ignored-comment", Kind::Ignored, "# harper: ignore zzqalpha zzqbravo", true),
        seg("blank", Kind::Blank, "", false),
    ]
}

pub fn row_for(fe: &FrontEnd) -> Option<Row> {
    let sep_c = "int zzqsep = 0;";
    Some(match (fe.class, fe.lang) {
        (Class::Comment, Some(lang)) => match lang {
            "rust" => Row { prefix: "", suffix: "", separator: "static ZZQSEP: i32 = 0;", indentable: true, segs: c_like("static ZZQX: i32 = 1;", "static ZZQS: &str = \"zzqstring é😀 zzqword\";", Some("/// {}"), true) },
            "typescript" | "typescriptreact" | "javascript" | "javascriptreact" => {
                let mut segs = c_like("let zzqx = 1;", "let zzqs = \"zzqstring é😀 zzqword\";", Some("/** {} */"), true);
                // inline doc tags: their contents are not prose, also behind an ordinary brace pair
                segs.push(seg("doc-comment-with-inline-tag", Kind::Prose, "/** {} {@link ZzqFoo} {} */", true));
                segs.push(seg("doc-comment-with-brace-then-inline-tag", Kind::Prose, "/** {} { } {@link ZzqFoo} {} */", true));
                Row { prefix: "", suffix: "", separator: "let zzqsep = 0;", indentable: true, segs }
            }
            "go" => {
                let mut segs = c_like("var zzqx = 1", "var zzqs = \"zzqstring é😀 zzqword\"", None, true);
                // a compiler directive followed by documentation in the same comment block
                segs.push(seg("directive-then-doc", Kind::Prose, "//go:generate zzqtool\n// {}", true));
                segs.push(seg("two-directives-then-doc", Kind::Prose, "//go:generate zzqtool\n//go:build zzqtag\n// {}", true));
                Row { prefix: "package zzqp\n", suffix: "", separator: "var zzqsep = 0", indentable: true, segs }
            }
            "c" | "cpp" => Row { prefix: "", suffix: "", separator: sep_c, indentable: true, segs: c_like("int zzqx = 1;", "const char* zzqs = \"zzqstring é😀 zzqword\";", Some("/** {} */"), true) },
            "swift" => Row { prefix: "", suffix: "", separator: "let zzqsep = 0", indentable: true, segs: c_like("let zzqx = 1", "let zzqs = \"zzqstring é😀 zzqword\"", Some("/// {}"), true) },
            "csharp" => Row { prefix: "", suffix: "", separator: "int zzqsep = 0;", indentable: true, segs: c_like("int zzqx = 1;", "string zzqs = \"zzqstring é😀 zzqword\";", Some("/// {}"), true) },
            "java" => {
                let mut segs = c_like("class ZzqA { int zzqx = 1; }", "class ZzqB { String zzqs = \"zzqstring é😀 zzqword\"; }", Some("/** {} */"), true);
                segs.push(seg("doc-comment-with-inline-tag", Kind::Prose, "/** {} {@link ZzqFoo} {} */", true));
                segs.push(seg("doc-comment-with-brace-then-inline-tag", Kind::Prose, "/** {} { } {@link ZzqFoo} {} */", true));
                Row { prefix: "", suffix: "", separator: "class ZzqSep { int zzqsep = 0; }", indentable: true, segs }
            }
            "php" => Row { prefix: "<?php\n", suffix: "", separator: "$zzqsep = 0;", indentable: true, segs: c_like("$zzqx = 1;", "$zzqs = \"zzqstring é😀 zzqword\";", Some("/** {} */"), true) },
            "dart" => Row { prefix: "", suffix: "", separator: "var zzqsep = 0;", indentable: true, segs: c_like("var zzqx = 1;", "var zzqs = \"zzqstring é😀 zzqword\";", Some("/// {}"), true) },
            "scala" => Row { prefix: "", suffix: "", separator: "val zzqsep = 0", indentable: true, segs: c_like("val zzqx = 1", "val zzqs = \"zzqstring é😀 zzqword\"", Some("/** {} */"), true) },
            "python" => Row { prefix: "", suffix: "", separator: "zzqsep = 0", indentable: false, segs: hash_like("zzqx = 1", "zzqs = \"zzqstring é😀 zzqword\"") },
            "ruby" => {
                let mut segs = hash_like("zzqx = 1", "zzqs = \"zzqstring é😀 zzqword\"");
                segs.push(seg("block-comment", Kind::Prose, "=begin\n{}\n=end", true));
                Row { prefix: "", suffix: "", separator: "zzqsep = 0", indentable: false, segs }
            }
            "toml" => Row { prefix: "", suffix: "", separator: "zzqsep = 0", indentable: true, segs: hash_like("zzqx = 1", "zzqs = \"zzqstring é😀 zzqword\"") },
            "shellscript" => {
                let mut segs = hash_like("zzqx=1", "zzqs=\"zzqstring é😀 zzqword\"");
                segs.push(seg("shebang", Kind::Ignored, "#!/bin/zzqsh zzqalpha", true));
                Row { prefix: "", suffix: "", separator: "zzqsep=0", indentable: true, segs }
            }
            "cmake" => Row { prefix: "", suffix: "", separator: "set(zzqsep 0)", indentable: true, segs: hash_like("set(zzqx 1)", "set(zzqs \"zzqstring é😀 zzqword\")") },
            "nix" => {
                let mut segs = hash_like("zzqx = 1;", "zzqs = \"zzqstring é😀 zzqword\";");
                segs.push(seg("block-comment", Kind::Prose, "/* {} */", true));
                Row { prefix: "{\n", suffix: "}\n", separator: "zzqsep = 0;", indentable: true, segs }
            }
            "lua" => Row {
                prefix: "",
                suffix: "",
                separator: "zzqsep = 0",
                indentable: true,
                segs: vec![
                    seg("code", Kind::NonProse, "zzqx = 1", false),
                    seg("code-with-string", Kind::NonProse, "zzqs = \"zzqstring é😀 zzqword\"", false),
                    seg("line-comment", Kind::Prose, "-- {}", true),
                    seg("block-comment", Kind::Prose, "--[[ {} ]]", true),
                    seg("ignored-comment", Kind::Ignored, "-- harper:ignore zzqalpha zzqbravo", true),
                    seg("blank", Kind::Blank, "", false),
                ],
            },
            "haskell" => Row {
                prefix: "",
                suffix: "",
                separator: "zzqsep = 0",
                indentable: false,
                segs: vec![
                    seg("code", Kind::NonProse, "zzqx = 1", false),
                    seg("code-with-string", Kind::NonProse, "zzqs = \"zzqstring é😀 zzqword\"", false),
                    seg("line-comment", Kind::Prose, "-- {}", true),
                    seg("block-comment", Kind::Prose, "{- {} -}", true),
                    seg("ignored-comment", Kind::Ignored, "-- harper:ignore zzqalpha zzqbravo", true),
                    seg("blank", Kind::Blank, "", false),
                ],
            },
            _ => return None,
        },
        (Class::GitCommit, _) => Row {
            prefix: "",
            suffix: "",
            separator: "",
            indentable: false,
            segs: vec![
                seg("paragraph", Kind::Prose, "{}\n", false),
                seg("list-item", Kind::Prose, "- {}\n", false),
                seg("emphasis", Kind::Prose, "*{}* and **{}**\n", false),
                seg("paragraph-with-inline-code", Kind::Prose, "{} `zzqcode é😀 zzqmore` {}\n", false),
                seg("paragraph-with-url", Kind::Prose, "{} https://zzqhost.example/zzqpath {}\n", false),
                // git strips everything from the first comment line on: nothing after it is prose
                seg("git-comment", Kind::NonProse, "# zzqcomment é😀 zzqmore\n", false),
                seg("fenced-code", Kind::NonProse, "```\nzzqfenced é😀 zzqcode\n```\n", false),
            ],
        },
        (Class::Markdown, _) => Row {
            prefix: "",
            suffix: "",
            separator: "",
            indentable: false,
            segs: vec![
                seg("paragraph", Kind::Prose, "{}\n", false),
                seg("heading", Kind::Prose, "## {}\n", false),
                seg("list-item", Kind::Prose, "- {}\n", false),
                seg("emphasis", Kind::Prose, "*{}* and **{}**\n", false),
                seg("link-text", Kind::Prose, "[{}](http://zzqhost.example/zzqpath)\n", false),
                seg("paragraph-with-inline-code", Kind::Prose, "{} `zzqcode é😀 zzqmore` {}\n", false),
                seg("paragraph-with-math", Kind::Prose, "{} $zzqmath + zzqvar$ {}\n", false),
                seg("paragraph-with-double-backtick-code", Kind::Prose, "{} ``zzqcode ` zzqmore`` {}\n", false),
                seg("paragraph-with-padded-code", Kind::Prose, "{} `` `zzqcode` `` {}\n", false),
                seg("paragraph-with-display-math", Kind::Prose, "{} $$zzqmath + zzqvar$$ {}\n", false),
                seg("paragraph-with-entities", Kind::Prose, "{} &lt;&gt; &amp; {}\n", false),
                seg("paragraph-with-url", Kind::Prose, "{} http://zzqhost.example/zzqpath?zzqkey=1 {}\n", false),
                seg("paragraph-with-autolink", Kind::Prose, "{} <https://zzqhost.example/zzqpath> {}\n", false),
                seg("paragraph-with-port-url", Kind::Prose, "{} http://localhost:8080/zzqpath {}\n", false),
                seg("paragraph-with-mail", Kind::Prose, "{} me@example.com {}\n", false),
                seg("fenced-code", Kind::NonProse, "```\nzzqfenced é😀 zzqcode\n```\n", false),
                seg("indented-code", Kind::NonProse, "    zzqindented é😀 zzqcode\n", false),
                seg("raw-html", Kind::NonProse, "<div zzqattr=\"zzqvalue\">\n</div>\n", false),
                seg("table", Kind::Prose, "| {} | {} |\n|---|---|\n| {} | {} |\n", false),
            ],
        },
        (Class::Html, _) => Row {
            prefix: "",
            suffix: "",
            separator: "",
            indentable: true,
            segs: vec![
                seg("paragraph", Kind::Prose, "<p>{}</p>", false),
                seg("bold-in-paragraph", Kind::Prose, "<p>{} <b>{}</b></p>", false),
                seg("attribute", Kind::Prose, "<a href=\"zzqhref\" title=\"zzqtitle é😀\">{}</a>", false),
                seg("comment", Kind::NonProse, "<!-- zzqcomment é😀 zzqmore -->", false),
                seg("script", Kind::NonProse, "<script>var zzqscript = \"zzqvalue é😀\";</script>", false),
                seg("style", Kind::NonProse, "<style>.zzqclass { color: zzqcolor; }</style>", false),
                seg("heading", Kind::Prose, "<h1 class=\"zzqclass\">{}</h1>", false),
                seg("paragraph-with-url", Kind::Prose, "<p>{} http://zzqhost.example/zzqpath {}</p>", false),
                seg("paragraph-with-entities", Kind::Prose, "<p>{} &amp; {}</p>", false),
                seg("paragraph-after-multibyte-attribute", Kind::Prose, "<p title=\"zzqé😀\" data-zzq=\"世\">{}</p>", false),
            ],
        },
        (Class::Typst, _) => Row {
            prefix: "",
            suffix: "",
            separator: "",
            indentable: false,
            segs: vec![
                seg("paragraph", Kind::Prose, "{}\n", false),
                seg("heading", Kind::Prose, "= {}\n", false),
                seg("emphasis", Kind::Prose, "_{}_ and *{}*\n", false),
                seg("raw", Kind::Prose, "{} `zzqraw é😀 zzqmore` {}\n", false),
                seg("math", Kind::Prose, "{} $zzqmath + zzqvar$ {}\n", false),
                seg("comment", Kind::NonProse, "// zzqcomment é😀 zzqmore\n", false),
                seg("list", Kind::Prose, "- {}\n", false),
                seg("paragraph-with-url", Kind::Prose, "{} https://zzqhost.example/zzqpath {}\n", false),
                seg("string-with-escapes", Kind::Prose, "#emph(\"{} \\\" \\\\ {}\")\n", false),
                seg("string-with-unicode-escape", Kind::Prose, "#emph(\"{} \\u{e9} {}\")\n", false),
            ],
        },
        (Class::Lhs, _) => Row {
            prefix: "",
            suffix: "",
            separator: "",
            indentable: false,
            segs: vec![
                seg("paragraph", Kind::Prose, "{}\n", false),
                seg("bird-code", Kind::NonProse, "> zzqbird = \"zzqstring é😀\"\n", false),
                seg("latex-code", Kind::NonProse, "\\begin{code}\nzzqlatex = \"zzqstring é😀\"\n\\end{code}\n", false),
                seg("heading", Kind::Prose, "## {}\n", false),
                seg("paragraph-with-url", Kind::Prose, "{} http://zzqhost.example/zzqpath {}\n", false),
            ],
        },
        (Class::Plain, _) => return None,
        _ => return None,
    })
}

pub struct Generated {
    pub text: String,
    /// (char start, char end, word)
    pub expected: Vec<(usize, usize, String)>,
    /// char ranges that must never produce a word/number token
    pub forbidden: Vec<(usize, usize, &'static str)>,
    pub description: Vec<&'static str>,
    /// some prose of this file is legitimately not offered (premise), so "unexpected word" cannot be judged
    pub expectations_skipped: bool,
}

/// Build one file from a sequence of segment indices.
pub fn generate(row: &Row, seq: &[usize], indent: &str, nl: &str, class: Class, ignore_link_title: bool, isolate: bool) -> Generated {
    let mut after_git_comment = false;
    let mut expectations_skipped = false;
    let mut text = String::new();
    let mut expected = vec![];
    let mut forbidden = vec![];
    let mut description = vec![];
    let count = |s: &str| s.chars().count();
    let push_line = |text: &mut String, line: &str| {
        text.push_str(line);
    };
    text.push_str(&row.prefix.replace('\n', nl));
    let mut prose_i = 0;
    let mut prev_comment: Option<Kind> = None;
    let markup = !matches!(class, Class::Comment);
    for (si, idx) in seq.iter().enumerate() {
        let s = &row.segs[*idx];
        description.push(s.name);
        // keep an ignored comment apart from neighbouring comments (the whole whitespace-merged
        // comment block is dropped by design)
        let prev_comment_before = prev_comment;
        if s.is_comment {
            if let Some(pk) = prev_comment {
                if pk == Kind::Ignored || s.kind == Kind::Ignored {
                    let a = count(&text);
                    push_line(&mut text, &format!("{indent}{}{nl}", row.separator));
                    forbidden.push((a, count(&text), "separator-code"));
                }
            }
            prev_comment = Some(s.kind);
        } else if s.kind != Kind::Blank {
            prev_comment = None;
        }
        // markup blocks are separated by a blank line so that each is its own block
        if markup && si > 0 && class != Class::Html {
            text.push_str(nl);
        }
        // an indented block directly after a list item continues the item: end the list first
        if s.name == "indented-code" && si > 0 && row.segs[seq[si - 1]].name == "list-item" {
            let a = count(&text);
            text.push_str("<!-- zzqendlist -->");
            text.push_str(nl);
            text.push_str(nl);
            forbidden.push((a, count(&text), "list-terminator"));
        }
        // a compiler directive is only recognised at the start of a comment block
        if (s.name == "directive-then-doc" || s.name == "two-directives-then-doc") && prev_comment_before.is_some() {
            let a = count(&text);
            text.push_str(&format!("{indent}{}{nl}", row.separator));
            forbidden.push((a, count(&text), "separator-code"));
        }
        let seg_start = count(&text);
        let mut body = String::new();
        let parts: Vec<&str> = s.template.split("{}").collect();
        let mut local_expected: Vec<(usize, String)> = vec![];
        for (pi, part) in parts.iter().enumerate() {
            body.push_str(part);
            if pi + 1 < parts.len() {
                let prose = PROSE[prose_i % PROSE.len()];
                prose_i += 1;
                let mut off = count(&body);
                for w in prose.split(' ') {
                    local_expected.push((off, w.to_string()));
                    off += count(w) + 1;
                }
                body.push_str(prose);
            }
        }
        // indentation and line endings (template lines are separated by \n)
        let lines: Vec<&str> = body.split('\n').collect();
        let mut rebuilt = String::new();
        let mut line_starts_old = vec![];
        let mut line_starts_new = vec![];
        let mut old_off = 0usize;
        for (li, l) in lines.iter().enumerate() {
            line_starts_old.push(old_off);
            let ind = if row.indentable && !l.is_empty() { indent } else { "" };
            rebuilt.push_str(ind);
            line_starts_new.push(count(&rebuilt));
            rebuilt.push_str(l);
            if li + 1 < lines.len() {
                rebuilt.push_str(nl);
            }
            old_off += count(l) + 1;
        }
        if !s.template.ends_with('\n') {
            rebuilt.push_str(nl);
        }
        // premises: with ignore_link_title the link text is deliberately not offered; in a git
        // commit message nothing after the first comment character is
        let skip_expect = (s.name == "link-text" && ignore_link_title) || after_git_comment || isolate;
        if class == Class::GitCommit && (s.name == "git-comment" || after_git_comment) {
            after_git_comment = true;
        }
        if skip_expect {
            expectations_skipped = true;
        }
        for (off, w) in local_expected {
            if skip_expect {
                continue;
            }
            // map old offset -> new offset through its line
            let li = line_starts_old.iter().rposition(|s| *s <= off).unwrap_or(0);
            let new_off = seg_start + line_starts_new[li] + (off - line_starts_old[li]);
            let len = count(&w);
            expected.push((new_off, new_off + len, w));
        }
        text.push_str(&rebuilt);
        let seg_end = count(&text);
        match s.kind {
            Kind::NonProse | Kind::Ignored => forbidden.push((seg_start, seg_end, s.name)),
            _ if after_git_comment => forbidden.push((seg_start, seg_end, "after-git-comment")),
            _ => {}
        }
    }
    text.push_str(&row.suffix.replace('\n', nl));
    // every sentinel occurrence anywhere is forbidden as a word
    let chars: Vec<char> = text.chars().collect();
    let pat: Vec<char> = "zzq".chars().collect();
    let mut i = 0;
    while i + 3 <= chars.len() {
        if chars[i..i + 3] == pat[..] || chars[i..i + 3] == ['Z', 'Z', 'Q'] || chars[i..i + 3] == ['Z', 'z', 'q'] {
            let mut j = i;
            while j < chars.len() && chars[j].is_alphanumeric() {
                j += 1;
            }
            forbidden.push((i, j, "sentinel"));
            i = j;
        } else {
            i += 1;
        }
    }
    Generated { text, expected, forbidden, description, expectations_skipped }
}

pub fn check_file(fe: &FrontEnd, g: &Generated, curated: &std::sync::Arc<FstDictionary>) -> Vec<(String, Value)> {
    let chars = s2c(&g.text);
    let r = catch(|| {
        let (p, d) = fe.prepare(&chars, curated);
        Document::new(&g.text, &p, &d).get_tokens().to_vec()
    });
    let Ok(toks) = r else {
        return vec![]; // a crash is C01's business
    };
    let mut out = vec![];
    for (s, e, w) in &g.expected {
        let ok = toks.iter().any(|t| matches!(t.kind, TokenKind::Word(_)) && t.span.start == *s && t.span.end == *e);
        if !ok {
            // how far off is the closest word token with the same text?
            let near = toks.iter().filter(|t| matches!(t.kind, TokenKind::Word(_)) && t.span.end <= chars.len()).find(|t| chars[t.span.start..t.span.end].iter().collect::<String>() == *w).map(|t| t.span.start as i64 - *s as i64);
            let cls = match near {
                Some(d) if d.abs() <= 4 => format!("shifted-by-{d}"),
                _ => "missing".to_string(),
            };
            out.push((format!("prose-word-not-at-its-position:{cls}"), json!({"word": w, "expected_span": [s, e]})));
            break;
        }
    }
    // exactly the prose words: a word token that is neither an expected prose word nor template
    // filler ("and") is something else being offered as prose (a comment delimiter, markup)
    for t in &toks {
        if !matches!(t.kind, TokenKind::Word(_)) || t.span.start >= t.span.end || t.span.end > chars.len() {
            continue;
        }
        let txt: String = chars[t.span.start..t.span.end].iter().collect();
        let expected = g.expected.iter().any(|(s, e, _)| *s == t.span.start && *e == t.span.end);
        let in_forbidden = g.forbidden.iter().any(|(a, b, _)| t.span.start < *b && *a < t.span.end);
        if !expected && !in_forbidden && txt != "and" && !g.expectations_skipped {
            out.push((format!("non-prose-word-offered:{}", txt.to_lowercase()), json!({"token": txt, "span": [t.span.start, t.span.end]})));
            break;
        }
    }
    for t in &toks {
        if t.span.start >= t.span.end || t.span.end > chars.len() {
            continue;
        }
        let lintable = matches!(t.kind, TokenKind::Word(_) | TokenKind::Number(_) | TokenKind::Hostname | TokenKind::EmailAddress | TokenKind::Decade);
        if !lintable {
            continue;
        }
        for (a, b, why) in &g.forbidden {
            if t.span.start < *b && *a < t.span.end {
                let txt: String = chars[t.span.start..t.span.end].iter().collect();
                out.push((format!("non-prose-offered-to-rules:{why}"), json!({"token": txt, "span": [t.span.start, t.span.end], "region": [a, b]})));
                return out;
            }
        }
    }
    out
}

pub fn run(tier: Tier) -> i32 {
    let mut report = Report::new("C04", tier, "exploration");
    report.set("rule", "for every front-end with a segment table (22 comment languages, the harper-ls compositions, Markdown x2, git-commit, HTML, Typst, Literate Haskell): every sequence of <= K segments (code, code with a string literal holding sentinels and multi-byte text, line/block/doc comments, ignored comments, blank; markup: paragraph, heading, list, emphasis, link, table, inline code, math, fenced/indented code, raw HTML, comments, scripts) x indentation {none, two spaces, tab} x {LF, CRLF}; the generator records the char offset of every prose word and every non-prose region; oracle: each prose word is a Word token at exactly its span, no Word/Number/Hostname/Email token overlaps a non-prose region or a sentinel. Non-trivial = file with at least one prose word and one non-prose region");
    let fes = frontends::all();
    let curated = FstDictionary::curated();
    let k = tier.pick(3, 5);
    // index space: (front-end, segment sequence, indent, newline), decoded on the fly
    let indents = ["", "  ", "\t"];
    let nls = ["\n", "\r\n"];
    struct Block {
        fi: usize,
        nsegs: u64,
        nind: u64,
        nseq: u64, // sequences of length 1..=k
        start: u64,
    }
    let mut blocks: Vec<Block> = vec![];
    let mut total = 0u64;
    let mut tables = 0;
    for (fi, fe) in fes.iter().enumerate() {
        let Some(row) = row_for(fe) else { continue };
        tables += 1;
        let n = row.segs.len() as u64;
        let mut nseq = 0u64;
        let mut p = 1u64;
        for _ in 1..=k {
            p *= n;
            nseq += p;
        }
        let nind = if row.indentable { 3 } else { 1 };
        blocks.push(Block { fi, nsegs: n, nind, nseq, start: total });
        total += nseq * nind * 2;
    }
    report.set("front_ends_with_a_segment_table", tables as u64);
    if tables < 28 {
        report.machinery(format!("only {tables} front-ends have a segment table"));
    }
    let nj = total;
    let decode = |j: u64| -> (usize, Vec<usize>, usize, usize) {
        let b = blocks.iter().rev().find(|b| b.start <= j).unwrap();
        let mut r = j - b.start;
        let ni = (r % 2) as usize;
        r /= 2;
        let ii = (r % b.nind) as usize;
        r /= b.nind;
        // r indexes sequences in shortlex order
        let mut len = 1usize;
        let mut p = b.nsegs;
        while r >= p {
            r -= p;
            p *= b.nsegs;
            len += 1;
        }
        let mut seq = vec![0usize; len];
        for d in (0..len).rev() {
            seq[d] = (r % b.nsegs) as usize;
            r /= b.nsegs;
        }
        (b.fi, seq, ii, ni)
    };
    let res = par_chunks(nj, 2000, ncpu(), |s, e| {
        let mut viols: Vec<Violation> = vec![];
        let mut nontrivial = 0u64;
        let mut evaluated = 0u64;
        let mut outcomes: BTreeSet<u64> = BTreeSet::new();
        let rows: Vec<Option<Row>> = fes.iter().map(row_for).collect();
        for j in s..e {
            let (fi, seq, ii, ni) = decode(j);
            // quick tier: the deepest level only with LF and no indentation (a bound, not a sample)
            if tier == Tier::Quick && seq.len() == k && (ii != 0 || ni != 0) {
                continue;
            }
            evaluated += 1;
            let fe = &fes[fi];
            let row = rows[fi].as_ref().unwrap();
            let g = generate(row, &seq, indents[ii], nls[ni], fe.class, fe.name.contains("ignore_link_title"), fe.name.contains("isolate"));
            if !g.expected.is_empty() && !g.forbidden.is_empty() {
                nontrivial += 1;
            }
            outcomes.insert(h64(&(fe.class as u8, g.expected.len().min(4), g.forbidden.len().min(4))));
            for (sig, detail) in check_file(fe, &g, &curated) {
                let lang = fe.lang.unwrap_or(crate::sweep::class_name(fe.class));
                let full = format!("{lang}:{sig}:{}", g.description.join("+"));
                let short = format!("{lang}:{sig}");
                if viols.iter().filter(|v| v.sig.starts_with(&short)).count() < 2 {
                    viols.push(Violation { sig: short.clone(), case: json!({"engine":"E1","front_end": fe.name, "segments": g.description, "indent": indents[ii], "line_ending": if ni == 0 {"LF"} else {"CRLF"}, "text": g.text}), detail: json!({"problem": detail, "class": full}) });
                } else {
                    viols.push(Violation { sig: short, case: json!({"pad":"further case ....................................................................................................................................................................................................................................................................................................................."}), detail: json!({}) });
                }
            }
        }
        (nontrivial, evaluated, outcomes, viols)
    });
    let mut evaluated = 0u64;
    for (nt, ev, o, vs) in res {
        report.add("distinct_nontrivial", nt);
        evaluated += ev;
        report.outcomes.extend(o);
        for v in vs {
            report.violation(v);
        }
    }
    let nj = evaluated;
    report.add("evaluations", nj);
    report.set("max_segments", k as u64);
    report.set("exhaustive", true);
    if let Some(fe) = fes.iter().find(|f| f.name == "comment:rust") {
        let g = generate(&row_for(fe).unwrap(), &[1, 2, 7], "  ", "\r\n", fe.class, false, false);
        report.sample(json!({"engine":"E1","front_end":"comment:rust","segments": g.description, "text": g.text, "expected_words": g.expected}));
    }
    report.assume("segment tables are the harness's model of each language: one valid statement, one statement with a string literal, each comment style, each ignore-marker spelling; an ignored comment is kept apart from neighbouring comments by a code line because harper drops the whole whitespace-merged comment block by design");
    report.assume("prose vocabulary (alpha, bravo, ...) is disjoint from identifiers and sentinels (zzq...)");
    report.finish()
}
