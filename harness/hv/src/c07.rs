//! C07 — words the user adds to a dictionary are accepted from then on and never lost
//! (engine E3 histories with crash-point enumeration; engine E2 on harper_wasm::Linter).

use crate::c09::{Op, Session, TEXTS};
use crate::dictionary_io::load_dict;
use crate::util::*;
use harper_core::Dictionary;
use serde_json::{Value, json};
use std::collections::BTreeSet;
use std::path::{Path, PathBuf};

pub const WORDS: &[&str] = &["tset", "thw", "naïvité", "O'Brienx", "ŁÓDŹx", "Tset"];

#[derive(Clone, Debug)]
pub enum HOp {
    Open(usize, usize),
    Change(usize, usize),
    AddUser(usize, &'static str),
    AddFile(usize, &'static str),
    Restart,
    /// the editor closes the document and opens it again under an equivalent URI spelling
    ReopenAlt(usize),
}

fn hops() -> Vec<HOp> {
    let mut v = vec![HOp::Open(0, 7), HOp::Open(1, 5), HOp::Change(0, 5), HOp::Restart, HOp::ReopenAlt(0)];
    for w in WORDS {
        v.push(HOp::AddUser(0, w));
        v.push(HOp::AddFile(0, w));
    }
    for w in &WORDS[..3] {
        v.push(HOp::AddFile(1, w));
        v.push(HOp::AddUser(1, w));
    }
    v
}

fn to_op(h: &HOp) -> Option<Op> {
    Some(match h {
        HOp::Open(d, t) => Op::Open(*d, *t),
        HOp::Change(d, t) => Op::Change(*d, *t),
        HOp::AddUser(d, w) => Op::AddUser(*d, w),
        HOp::AddFile(d, w) => Op::AddFile(*d, w),
        HOp::Restart | HOp::ReopenAlt(_) => return None,
    })
}

fn read_dict(sess: &mut Session, path: &Path) -> Result<BTreeSet<String>, String> {
    let p = path.to_path_buf();
    if !p.exists() {
        return Ok(BTreeSet::new());
    }
    let d = sess.server.block_on(load_dict(p)).map_err(|e| e.to_string())?;
    Ok(d.words_iter().map(|w| w.iter().collect::<String>()).collect())
}

/// Recover a dictionary from raw file bytes with the real loader.
fn recover(sess: &mut Session, scratch: &Path, bytes: &[u8]) -> Result<BTreeSet<String>, String> {
    std::fs::write(scratch, bytes).map_err(|e| e.to_string())?;
    let d = sess.server.block_on(load_dict(scratch.to_path_buf())).map_err(|e| e.to_string());
    match d {
        Ok(d) => Ok(d.words_iter().map(|w| w.iter().collect::<String>()).collect()),
        // a torn multi-byte character makes the file invalid UTF-8: the loader fails, harper-ls then
        // starts from an empty dictionary
        Err(_) => Ok(BTreeSet::new()),
    }
}

struct Outcome {
    viols: Vec<Violation>,
    steps: u64,
    crash_points: u64,
    torn: u64,
    applicable: bool,
}

fn describe(seq: &[HOp]) -> Value {
    let initial = CUR_INITIAL.with(|c| c.get());
    json!({"engine":"E3","object":"harper-ls dictionaries","user_dictionary_file_before_start": if initial < INITIAL_FILES.len() { INITIAL_FILES[initial].0.to_string() } else { format!("700 multi-byte words, first word shifted by {}", initial - INITIAL_FILES.len()) }, "history": seq.iter().map(|o| format!("{o:?}")).collect::<Vec<_>>()})
}

thread_local! {
    static CUR_INITIAL: std::cell::Cell<usize> = const { std::cell::Cell::new(0) };
}

/// A user dictionary file that exists before the server starts ("a dictionary file on disk"):
/// absent, one word, the same without a final newline, two words with CRLF line ends.
pub const INITIAL_FILES: &[(&str, &[&str])] = &[("", &[]), ("thw\n", &["thw"]), ("thw", &["thw"]), ("thw\r\nnaïvité\r\n", &["thw", "naïvité"])];

/// Variants 0..3 are the small files above; 4..6 are a long add history: 700 words full of
/// multi-byte letters (more than one read buffer), behind a first word whose length shifts every
/// later byte by 0, 1 or 2 so that buffer boundaries fall inside characters.
pub const N_INITIAL: usize = 7;

fn initial_file(i: usize) -> (String, Vec<String>) {
    if i < INITIAL_FILES.len() {
        let (b, w) = INITIAL_FILES[i];
        return (b.to_string(), w.iter().map(|x| x.to_string()).collect());
    }
    let shift = i - INITIAL_FILES.len();
    let mut words: Vec<String> = vec![format!("q{}z", "x".repeat(shift))];
    for k in 0..700 {
        words.push(format!("zé{}ñ世{}", ["a", "b", "c", "d", "e", "f", "g"][k % 7].repeat(1 + k % 5), k));
    }
    (words.iter().map(|w| format!("{w}\n")).collect::<String>(), words)
}

fn run_history(seq: &[HOp], crash: bool) -> Result<Outcome, String> {
    run_history_from(seq, crash, 0)
}

fn run_history_from(seq: &[HOp], crash: bool, initial: usize) -> Result<Outcome, String> {
    CUR_INITIAL.with(|c| c.set(initial));
    let mut sess = Session::new("c07")?;
    let mut out = Outcome { viols: vec![], steps: 0, crash_points: 0, torn: 0, applicable: true };
    let scratch = sess.world.root.join("recovered.txt");
    let mut asis_user: BTreeSet<String> = BTreeSet::new();
    if initial > 0 {
        let (bytes, words) = initial_file(initial);
        let (bytes, words): (&str, Vec<&str>) = (&bytes, words.iter().map(|w| w.as_str()).collect());
        if let Some(dir) = sess.world.user_dict.parent() {
            std::fs::create_dir_all(dir).map_err(|e| e.to_string())?;
        }
        std::fs::write(&sess.world.user_dict, bytes).map_err(|e| e.to_string())?;
        for w in &words {
            sess.client.user_words.insert(w.to_string());
            asis_user.insert(w.to_string());
        }
    }
    let mut asis_file: Vec<BTreeSet<String>> = vec![BTreeSet::new(), BTreeSet::new()];
    // (dictionary path, directory images at the crash points, words that must survive, word in flight)
    let mut continuation: Option<(PathBuf, Vec<DirImage>, BTreeSet<String>, String, Op)> = None;
    for (si, h) in seq.iter().enumerate() {
        out.steps += 1;
        match to_op(h) {
            None => match h {
                HOp::ReopenAlt(d) => {
                    if !sess.client.docs[*d].open {
                        out.applicable = false;
                        return Ok(out);
                    }
                    let t = TEXTS.iter().position(|t| *t == sess.client.docs[*d].text).unwrap();
                    sess.send(&Op::Close(*d));
                    sess.server.run_default()?;
                    sess.client.docs[*d].alt ^= true;
                    sess.send(&Op::Open(*d, t));
                    sess.server.run_default()?;
                }
                _ => sess.restart()?,
            },
            Some(op) => {
                if !sess.applicable(&op) {
                    out.applicable = false;
                    return Ok(out);
                }
                // acknowledged words before this operation
                let ack_user = sess.client.user_words.clone();
                let ack_file: Vec<BTreeSet<String>> = sess.client.file_words.clone();
                let _ = (&ack_user, &ack_file);
                // acknowledged = what the dictionary file held before this command (as-is model,
                // so that finding F13 is not mistaken for a crash loss); a word that differs from the
                // one in flight only by case is replaced by it
                let target: Option<(PathBuf, BTreeSet<String>, String)> = match &op {
                    Op::AddUser(_, w) => Some((sess.world.user_dict.clone(), asis_user.iter().filter(|x| x.to_lowercase() != w.to_lowercase()).cloned().collect(), w.to_string())),
                    Op::AddFile(d, w) => Some((sess.file_dict_path(*d), asis_file[*d].iter().filter(|x| x.to_lowercase() != w.to_lowercase()).cloned().collect(), w.to_string())),
                    _ => None,
                };
                sess.send(&op);
                if let (true, Some((path, ack, inflight))) = (crash && si + 1 == seq.len(), target) {
                    // step by step: after every event the file on disk is what a process death leaves
                    use std::os::unix::fs::MetadataExt;
                    let ino = |p: &Path| std::fs::metadata(p).map(|m| m.ino()).unwrap_or(0);
                    let mut inodes: Vec<u64> = vec![ino(&path)];
                    let mut states: Vec<Vec<u8>> = vec![std::fs::read(&path).unwrap_or_default()];
                    let mut dirs: Vec<DirImage> = vec![dir_image(&path)];
                    let mut guard = 0;
                    while !sess.server.quiescent() {
                        let evs = sess.server.enabled();
                        let Some(ev) = evs.first().cloned() else { return Err("deadlock".into()) };
                        sess.server.step(&ev)?;
                        let now = std::fs::read(&path).unwrap_or_default();
                        if states.last() != Some(&now) {
                            states.push(now);
                            inodes.push(ino(&path));
                        }
                        let di = dir_image(&path);
                        if !dirs.contains(&di) {
                            dirs.push(di);
                        }
                        guard += 1;
                        if guard > 5000 {
                            return Err("livelock".into());
                        }
                    }
                    // every on-disk state, plus every torn prefix of each append
                    let mut images: Vec<(String, Vec<u8>)> = vec![];
                    for (k, st) in states.iter().enumerate() {
                        images.push((format!("after-io-step-{k}"), st.clone()));
                        // bytes appended to the SAME file (same inode) pass through partial states; a
                        // file moved into place (new inode) changes atomically
                        if k > 0 && inodes[k] == inodes[k - 1] && st.len() > states[k - 1].len() && st.starts_with(&states[k - 1]) {
                            for cut in states[k - 1].len() + 1..st.len() {
                                images.push((format!("torn-write-in-step-{k}-at-byte-{cut}"), st[..cut].to_vec()));
                                out.torn += 1;
                            }
                        }
                    }
                    for (name, img) in images {
                        out.crash_points += 1;
                        let rec = recover(&mut sess, &scratch, &img)?;
                        // may still hold an earlier spelling that differs from the word in flight only by case
                        let mut upper: BTreeSet<String> = asis_user.iter().chain(asis_file.iter().flatten()).cloned().collect();
                        upper.extend(ack.iter().cloned());
                        upper.insert(inflight.clone());
                        let lost: Vec<&String> = ack.iter().filter(|w| !rec.contains(*w)).collect();
                        let invented: Vec<&String> = rec.iter().filter(|w| !upper.contains(*w)).collect();
                        if !lost.is_empty() {
                            let cls = if img.is_empty() { "file-empty-after-truncate" } else { "partial-file" };
                            if out.viols.iter().filter(|v| v.sig.starts_with("crash:acknowledged-word-lost")).count() < 3 {
                                out.viols.push(Violation { sig: format!("crash:acknowledged-word-lost:{cls}"), case: describe(seq), detail: json!({"crash_point": name, "file_bytes": String::from_utf8_lossy(&img), "acknowledged": ack, "recovered": rec, "lost": lost}) });
                            }
                        } else if !invented.is_empty() {
                            // a torn write may leave a prefix of the word in flight as its own line
                            let torn_prefix_only = invented.iter().all(|w| inflight.starts_with(w.as_str()) || ack.iter().any(|a| a.starts_with(w.as_str())));
                            if !torn_prefix_only && out.viols.len() < 6 {
                                out.viols.push(Violation { sig: "crash:recovered-word-never-added".into(), case: describe(seq), detail: json!({"crash_point": name, "recovered": rec, "acknowledged": ack, "in_flight": inflight}) });
                            }
                        }
                    }
                    continuation = Some((path.clone(), dirs, ack.clone(), inflight.clone(), op.clone()));
                } else {
                    sess.server.run_default()?;
                }
            }
        }
        // as-is model of finding F13: a dictionary keeps ONE spelling per lower-cased word, the
        // later addition replacing the earlier one
        match h {
            HOp::AddUser(_, w) => {
                asis_user.retain(|x: &String| x.to_lowercase() != w.to_lowercase());
                asis_user.insert(w.to_string());
            }
            HOp::AddFile(d, w) => {
                asis_file[*d].retain(|x: &String| x.to_lowercase() != w.to_lowercase());
                asis_file[*d].insert(w.to_string());
            }
            _ => {}
        }
        // after every step: files on disk reload to exactly the words added so far
        let udp = sess.world.user_dict.clone();
        let user = read_dict(&mut sess, &udp)?;
        if user != sess.client.user_words {
            if user == asis_user {
                out.viols.push(Violation { sig: "F13-case-colliding-words-in-server-dictionary".into(), case: describe(&seq[..=si]), detail: json!({"file": user, "added": sess.client.user_words}) });
            } else {
                out.viols.push(Violation { sig: "user-dictionary-file-differs-from-words-added".into(), case: describe(&seq[..=si]), detail: json!({"file": user, "added": sess.client.user_words}) });
            }
        }
        for d in 0..2 {
            let p = sess.file_dict_path(d);
            let f = read_dict(&mut sess, &p)?;
            if f != sess.client.file_words[d] {
                if f == asis_file[d] {
                    out.viols.push(Violation { sig: "F13-case-colliding-words-in-server-dictionary".into(), case: describe(&seq[..=si]), detail: json!({"document": sess.client.docs[d].name, "file": f, "added": sess.client.file_words[d]}) });
                } else {
                    out.viols.push(Violation { sig: "file-dictionary-differs-from-words-added".into(), case: describe(&seq[..=si]), detail: json!({"document": sess.client.docs[d].name, "file": f, "added": sess.client.file_words[d]}) });
                }
            }
        }
        // diagnostics of every open document == reference (added words accepted; a file word only in its file)
        for (d, detail) in sess.check_spec() {
            let kind = format!("{h:?}");
            let kind: String = kind.chars().take_while(|c| c.is_alphabetic()).collect();
            // does the as-is dictionary (finding F13) explain what was published?
            let doc = &sess.client.docs[d];
            let mut w = asis_user.clone();
            w.extend(asis_file[d].iter().cloned());
            let asis = crate::c09::ref_diag(&doc.text, doc.lang, &w, sess.client.config);
            let got = sess.server.last_diagnostics(&sess.uri(d)).map(|v| crate::c09::norm_diag(&v));
            if w != sess.words_for(d) && got.as_ref() == Some(&asis) {
                out.viols.push(Violation { sig: "F13-case-colliding-words-in-server-dictionary".into(), case: describe(&seq[..=si]), detail });
            } else if out.viols.len() < 8 {
                out.viols.push(Violation { sig: format!("diagnostics-wrong-after-{kind}"), case: describe(&seq[..=si]), detail });
            }
        }
        if out.viols.iter().any(|v| !v.sig.starts_with("F13")) {
            break;
        }
    }
    // Life after the crash: for every directory image a process death can leave behind (the
    // dictionary file and whatever sits next to it), a new server is started on it and the user adds
    // one more word; that word and everything acknowledged before must then be in the file.
    if let (true, Some((path, dirs, ack, inflight, op))) = (out.viols.is_empty(), continuation) {
        let taken: BTreeSet<String> = asis_user.iter().chain(asis_file.iter().flatten()).chain(ack.iter()).chain(std::iter::once(&inflight)).map(|w| w.to_lowercase()).collect();
        if let Some(next) = WORDS[..3].iter().find(|w| !taken.contains(&w.to_lowercase())) {
            for (k, di) in dirs.iter().enumerate() {
                restore_dir(&path, di);
                let main: Vec<u8> = di.iter().find(|(n, _)| n.is_empty()).map(|(_, b)| b.clone()).unwrap_or_default();
                let before = recover(&mut sess, &scratch, &main)?;
                sess.restart()?;
                let (cmd, d) = match &op {
                    Op::AddUser(d, _) => ("HarperAddToUserDict", *d),
                    Op::AddFile(d, _) => ("HarperAddToFileDict", *d),
                    _ => unreachable!(),
                };
                let uri = sess.uri(d);
                let req = sess.server.request("workspace/executeCommand", json!({"command": cmd, "arguments": [next, uri]}));
                sess.server.enqueue("add-after-crash", req);
                sess.server.run_default()?;
                out.crash_points += 1;
                out.steps += 1;
                let after = read_dict(&mut sess, &path)?;
                let mut must: BTreeSet<String> = ack.clone();
                must.extend(before.iter().filter(|w| **w == inflight).cloned());
                must.insert(next.to_string());
                let lost: Vec<&String> = must.iter().filter(|w| !after.contains(*w)).collect();
                if !lost.is_empty() {
                    let names: Vec<String> = di.iter().map(|(n, _)| format!("<dictionary>{n}")).collect();
                    out.viols.push(Violation { sig: "crash:word-added-after-recovery-not-saved".into(), case: describe(seq), detail: json!({"crash_point": format!("directory-image-{k}"), "files_left_behind": names, "then_added": next, "file_after": after, "lost": lost}) });
                    break;
                }
            }
        }
    }
    Ok(out)
}

/// The dictionary file and its siblings (files whose name starts with the dictionary's name), as
/// (name suffix, bytes); the dictionary itself has the empty suffix.
type DirImage = Vec<(String, Vec<u8>)>;

fn dir_image(path: &Path) -> DirImage {
    let mut v: DirImage = vec![];
    let (Some(dir), Some(name)) = (path.parent(), path.file_name().map(|n| n.to_string_lossy().to_string())) else { return v };
    if let Ok(rd) = std::fs::read_dir(dir) {
        for e in rd.flatten() {
            let n = e.file_name().to_string_lossy().to_string();
            if let Some(suffix) = n.strip_prefix(&name) {
                if e.path().is_file() {
                    v.push((suffix.to_string(), std::fs::read(e.path()).unwrap_or_default()));
                }
            }
        }
    }
    v.sort();
    v
}

fn restore_dir(path: &Path, img: &DirImage) {
    for (suffix, _) in dir_image(path) {
        let mut n = path.as_os_str().to_owned();
        n.push(&suffix);
        let _ = std::fs::remove_file(PathBuf::from(n));
    }
    if let Some(dir) = path.parent() {
        let _ = std::fs::create_dir_all(dir);
    }
    for (suffix, bytes) in img {
        let mut n = path.as_os_str().to_owned();
        n.push(suffix);
        let _ = std::fs::write(PathBuf::from(n), bytes);
    }
}

fn parse_hop(t: &str) -> Option<HOp> {
    let (name, rest) = t.split_once('(').unwrap_or((t, ""));
    let args: Vec<String> = rest.trim_end_matches(')').split(", ").map(|a| a.trim_matches('"').to_string()).collect();
    let num = |i: usize| args.get(i).and_then(|a| a.parse::<usize>().ok());
    let word = |i: usize| args.get(i).and_then(|a| WORDS.iter().find(|w| **w == a.as_str()).copied());
    Some(match name {
        "Open" => HOp::Open(num(0)?, num(1)?),
        "Change" => HOp::Change(num(0)?, num(1)?),
        "AddUser" => HOp::AddUser(num(0)?, word(1)?),
        "AddFile" => HOp::AddFile(num(0)?, word(1)?),
        "Restart" => HOp::Restart,
        "ReopenAlt" => HOp::ReopenAlt(num(0)?),
        _ => return None,
    })
}

/// Re-run one recorded server history (with its crash points when it ends in an addition).
pub fn replay(case: &Value) -> Vec<(String, Value)> {
    crate::e3::sandbox_env();
    let Some(hist) = case["history"].as_array() else {
        return vec![("bad-replay-file: no history (wasm import cases are re-run by ./check C07)".into(), json!({}))];
    };
    let seq: Option<Vec<HOp>> = hist.iter().map(|h| h.as_str().and_then(parse_hop)).collect();
    let Some(seq) = seq else { return vec![("bad-replay-file: unknown operation".into(), json!({}))] };
    let ends_in_add = matches!(seq.last(), Some(HOp::AddUser(..)) | Some(HOp::AddFile(..)));
    let initial = case["user_dictionary_file_before_start"].as_str().and_then(|b| INITIAL_FILES.iter().position(|(x, _)| *x == b).or_else(|| b.strip_prefix("700 multi-byte words, first word shifted by ").and_then(|n| n.parse::<usize>().ok()).map(|n| INITIAL_FILES.len() + n))).unwrap_or(0);
    match catch(|| run_history_from(&seq, ends_in_add, initial)) {
        Ok(Ok(o)) if !o.applicable => vec![("history-not-applicable".into(), json!({}))],
        Ok(Ok(o)) => o.viols.into_iter().map(|v| (v.sig, v.detail)).collect(),
        Ok(Err(e)) => vec![(format!("machinery: {e}"), json!({}))],
        Err(p) => vec![(format!("server-panic:{}", msg_class(&p.msg)), json!({"msg": p.msg}))],
    }
}

/// harper_wasm::Linter: import_words / lint / export_words over all ordered pairs and triples.
fn wasm_part(report: &mut Report, tier: Tier) -> u64 {
    use harper_wasm::{Dialect, Language, Linter};
    let mut alpha: Vec<&str> = WORDS.to_vec();
    // `paris`, `github`: the curated dictionary lists them only with capitals
    alpha.extend(["Tset", "THW", "teh", "paris", "github"]);
    let text = "The tset and thw met naïvité, O'Brienx and ŁÓDŹx; teh Tset and THW too, in paris on github.";
    let tokens_of_interest = ["tset", "thw", "naïvité", "O'Brienx", "ŁÓDŹx", "teh", "Tset", "THW", "paris", "github"];
    let n = alpha.len();
    let depth = tier.pick(2, 3);
    let seqs = crate::e2::sequences(n, depth);
    let res = crate::pool::par_chunks(seqs.len() as u64, 8, ncpu(), |s, e| {
        let mut viols = vec![];
        let mut traces = 0u64;
        for i in s..e {
            let seq = &seqs[i as usize];
            traces += 1;
            let r = catch(|| {
                let mut l = Linter::new(Dialect::American);
                let mut added: BTreeSet<String> = BTreeSet::new();
                for wi in seq {
                    l.import_words(vec![alpha[*wi].to_string()]);
                    added.insert(alpha[*wi].to_string());
                }
                let lints = l.lint(text.to_string(), Language::Plain);
                let flagged: BTreeSet<String> = lints.iter().filter(|x| x.lint_kind() == "Spelling").map(|x| x.get_problem_text()).collect();
                let exported: BTreeSet<String> = l.export_words().into_iter().collect();
                (added, flagged, exported)
            });
            let Ok((added, flagged, exported)) = r else {
                viols.push(Violation { sig: "wasm:panic".into(), case: json!({"engine":"E2","object":"harper_wasm::Linter","import_words": seq.iter().map(|i| alpha[*i]).collect::<Vec<_>>()}), detail: json!({}) });
                continue;
            };
            let case = json!({"engine":"E2","object":"harper_wasm::Linter","import_words": seq.iter().map(|i| alpha[*i]).collect::<Vec<_>>(), "text": text});
            let collision = {
                let mut low: BTreeSet<String> = BTreeSet::new();
                added.iter().any(|w| !low.insert(w.to_lowercase()))
            };
            for w in tokens_of_interest {
                // accepted iff added exactly, or a lower-case added entry matches its lower-casing
                let accepted = added.contains(w) || added.contains(&w.to_lowercase());
                if accepted && flagged.contains(w) {
                    let cls = if collision { "F13-case-colliding-imported-words" } else { "wasm:added-word-still-reported" };
                    if viols.iter().filter(|v: &&Violation| v.sig == cls).count() < 2 {
                        viols.push(Violation { sig: cls.into(), case: case.clone(), detail: json!({"word": w, "flagged": flagged}) });
                    }
                }
                if !accepted && !flagged.contains(w) && !added.iter().any(|a| a.to_lowercase() == w.to_lowercase()) {
                    if viols.len() < 6 {
                        viols.push(Violation { sig: "wasm:word-accepted-without-being-added".into(), case: case.clone(), detail: json!({"word": w, "flagged": flagged}) });
                    }
                }
            }
            if exported != added {
                let cls = if collision { "F13-case-colliding-imported-words" } else { "wasm:export-differs-from-imported" };
                if viols.iter().filter(|v: &&Violation| v.sig == cls).count() < 2 {
                    viols.push(Violation { sig: cls.into(), case, detail: json!({"exported": exported, "imported": added}) });
                }
            }
        }
        (traces, viols)
    });
    let mut t = 0;
    for (tr, vs) in res {
        t += tr;
        for v in vs {
            report.violation(v);
        }
    }
    report.set("wasm_import_histories", t);
    t
}

pub fn run(tier: Tier) -> i32 {
    crate::e3::sandbox_env();
    let mut report = Report::new("C07", tier, "model_checking");
    let ops = hops();
    let depth = tier.pick(3, 4);
    let mut seqs = crate::e2::sequences(ops.len(), depth);
    // canonicalisation: histories must start by opening a document (nothing else is applicable)
    seqs.retain(|s| s.first().map(|o| matches!(ops[*o], HOp::Open(..))).unwrap_or(false));
    // one level deeper for "both documents open, a file-dictionary word and a user-dictionary word
    // added in either order from either document" (a file word must stay in its file)
    if depth < 4 {
        let idx = |h: &dyn Fn(&HOp) -> bool| -> Vec<usize> { ops.iter().enumerate().filter(|(_, o)| h(o)).map(|(i, _)| i).collect() };
        let o0 = idx(&|o| matches!(o, HOp::Open(0, _)))[0];
        let o1 = idx(&|o| matches!(o, HOp::Open(1, _)))[0];
        let files = idx(&|o| matches!(o, HOp::AddFile(_, w) if WORDS[..3].contains(w)));
        let users = idx(&|o| matches!(o, HOp::AddUser(_, w) if WORDS[..3].contains(w)));
        for f in &files {
            for u in &users {
                seqs.push(vec![o0, o1, *f, *u]);
                seqs.push(vec![o0, o1, *u, *f]);
            }
        }
    }
    let n = seqs.len() as u64;
    let res = crate::pool::par_chunks(n, 8, ncpu(), |s, e| {
        let mut viols = vec![];
        let mut ran = 0u64;
        let mut steps = 0u64;
        let mut crash_points = 0u64;
        let mut torn = 0u64;
        let mut errs = vec![];
        for i in s..e {
            let seq: Vec<HOp> = seqs[i as usize].iter().map(|k| ops[*k].clone()).collect();
            let ends_in_add = matches!(seq.last(), Some(HOp::AddUser(..)) | Some(HOp::AddFile(..)));
            // a pre-existing dictionary file: every variant for the shorter histories
            // (the long files only for histories of one or two messages)
            let initials: Vec<usize> = if seq.len() < depth { (0..if seq.len() <= 2 { N_INITIAL } else { INITIAL_FILES.len() }).collect() } else { vec![0] };
            for initial in initials {
            match catch(|| run_history_from(&seq, ends_in_add, initial)) {
                Ok(Ok(o)) => {
                    if o.applicable {
                        ran += 1;
                        steps += o.steps;
                        crash_points += o.crash_points;
                        torn += o.torn;
                    }
                    for v in o.viols {
                        if viols.iter().filter(|x: &&Violation| x.sig == v.sig).count() < 2 {
                            viols.push(v);
                        } else {
                            viols.push(Violation { sig: v.sig, case: json!({"pad":"further case .............................................................................................................................................................................................................."}), detail: json!({}) });
                        }
                    }
                }
                Ok(Err(e)) => errs.push(format!("{seq:?}: {e}")),
                Err(p) => viols.push(Violation { sig: format!("server-panic:{}", msg_class(&p.msg)), case: describe(&seq), detail: json!({"at": format!("{}:{}", short_file(&p.file), p.line), "msg": p.msg}) }),
            }
            }
        }
        (ran, steps, crash_points, torn, viols, errs)
    });
    let mut ran = 0;
    let mut steps = 0;
    let mut cps = 0;
    let mut torn = 0;
    for (r, s, c, t, vs, errs) in res {
        ran += r;
        steps += s;
        cps += c;
        torn += t;
        for v in vs {
            report.violation(v);
        }
        for e in errs.into_iter().take(2) {
            report.machinery(e);
        }
    }
    let w = wasm_part(&mut report, tier);
    report.set("server_histories_executed", ran);
    report.set("crash_images_recovered", cps);
    report.set("of_which_torn_writes", torn);
    report.set("states", ran + cps + w);
    report.set("transitions", steps + cps + w);
    report.set("traces_validated_against_impl", ran + w);
    report.outcomes.insert(ran);
    report.outcomes.insert(cps);
    report.set("exhaustive", true);
    report.sample(describe(&[HOp::Open(0, 4), HOp::AddUser(0, "naïvité"), HOp::Restart, HOp::AddFile(0, "ŁÓDŹx")]));
    report.sample(json!({"crash_point":"torn-write-in-step-3-at-byte-7","note":"file image = bytes on disk after the 3rd I/O completion, cut at byte 7"}));
    report.assume("crash = process death at any point between blocking file operations of the save path, and inside any single write (every byte cut): what is on disk then is exactly what the real loader is given; power loss (unsynced page cache, reordered writes) is outside the bound");
    report.assume("words are added only when the editor would offer them (currently flagged in that document)");
    report.finish()
}
