//! Process pool with hang/abort isolation for the exhaustive enumerations (engine E1).
//!
//! The driver cuts the index space [0, n) into chunks and hands them to worker *processes*
//! (the same binary, `hv worker <job> <tier>`), one line per command over a pipe. A worker runs
//! each case under `catch_unwind`; a watchdog thread inside the worker turns a case that holds the
//! same index for longer than the hang budget into a `hang <idx>` line and exits, so the driver can
//! record it and continue behind it. A worker that dies without a word (stack overflow, allocation
//! failure) has its chunk re-run in *careful* mode, where the index is announced before each case.

use crate::util::*;
use serde_json::{Value, json};
use std::collections::{BTreeMap, BTreeSet, VecDeque};
use std::io::{BufRead, BufReader, Write};
use std::process::{Command, Stdio};
use std::sync::atomic::{AtomicU64, Ordering};
use std::sync::{Arc, Mutex};
use std::time::{Duration, Instant};

pub trait Job {
    fn n_cases(&self) -> u64;
    /// Execute case `idx`. A panic that escapes is reported through `on_panic`.
    fn run_case(&mut self, idx: u64, out: &mut ChunkOut);
    /// A panic escaped `run_case` (the job decides whether that is a violation of *its* property).
    fn on_panic(&mut self, idx: u64, p: PanicInfo, out: &mut ChunkOut);
    /// Called when a case hung or aborted the process (reported by the driver).
    fn on_hang(&self, idx: u64, kind: &str) -> Option<Violation>;
    fn describe(&self, idx: u64) -> Value;
}

#[derive(Default)]
pub struct ChunkOut {
    pub counters: BTreeMap<String, u64>,
    pub outcomes: BTreeSet<u64>,
    pub viols: BTreeMap<String, (u64, u64, Violation)>, // sig -> (count, first idx, first)
    pub samples: Vec<Value>,
}

impl ChunkOut {
    pub fn count(&mut self, k: &str, n: u64) {
        *self.counters.entry(k.to_string()).or_insert(0) += n;
    }
    pub fn outcome(&mut self, h: u64) {
        if self.outcomes.len() < 20000 {
            self.outcomes.insert(h);
        }
    }
    pub fn violation(&mut self, idx: u64, v: Violation) {
        let e = self
            .viols
            .entry(v.sig.clone())
            .or_insert_with(|| (0, idx, v.clone()));
        e.0 += 1;
    }
    pub fn sample(&mut self, v: Value) {
        if self.samples.len() < 3 {
            self.samples.push(v);
        }
    }
    fn to_json(&self) -> Value {
        json!({
            "counters": self.counters,
            "outcomes": self.outcomes.iter().collect::<Vec<_>>(),
            "viols": self.viols.iter().map(|(s,(n,i,v))| json!({"sig":s,"n":n,"idx":i,"case":v.case,"detail":v.detail})).collect::<Vec<_>>(),
            "samples": self.samples,
        })
    }
}

const IDLE: u64 = u64::MAX;
/// After this many hung/aborted cases the run stops dispatching (verdict is a violation anyway).
pub const MAX_HANGS: usize = 24;
static CUR_IDX: AtomicU64 = AtomicU64::new(IDLE);
static CUR_SINCE_MS: AtomicU64 = AtomicU64::new(0);

fn now_ms(t0: Instant) -> u64 {
    t0.elapsed().as_millis() as u64
}

/// Worker side: serve `run <s> <e> [careful]` commands on stdin until EOF/quit.
pub fn worker_main(mut job: Box<dyn Job>, hang_budget: Duration) -> i32 {
    install_panic_hook();
    let t0 = Instant::now();
    {
        let budget = hang_budget.as_millis() as u64;
        std::thread::spawn(move || {
            loop {
                std::thread::sleep(Duration::from_millis(100));
                let idx = CUR_IDX.load(Ordering::SeqCst);
                if idx == IDLE {
                    continue;
                }
                let since = CUR_SINCE_MS.load(Ordering::SeqCst);
                if now_ms(t0).saturating_sub(since) > budget
                    && CUR_IDX.load(Ordering::SeqCst) == idx
                {
                    let so = std::io::stdout();
                    let mut l = so.lock();
                    let _ = writeln!(l, "hang {idx}");
                    let _ = l.flush();
                    std::process::exit(3);
                }
            }
        });
    }
    let stdin = std::io::stdin();
    println!("ready");
    for line in stdin.lock().lines() {
        let Ok(line) = line else { break };
        let parts: Vec<&str> = line.split_whitespace().collect();
        if parts.is_empty() {
            continue;
        }
        if parts[0] == "quit" {
            break;
        }
        if parts[0] != "run" || parts.len() < 3 {
            continue;
        }
        let s: u64 = parts[1].parse().unwrap();
        let e: u64 = parts[2].parse().unwrap();
        let careful = parts.get(3) == Some(&"careful");
        let mut out = ChunkOut::default();
        for idx in s..e {
            if careful {
                println!("at {idx}");
                let _ = std::io::stdout().flush();
            }
            CUR_SINCE_MS.store(now_ms(t0), Ordering::SeqCst);
            CUR_IDX.store(idx, Ordering::SeqCst);
            let r = std::panic::catch_unwind(std::panic::AssertUnwindSafe(|| {
                job.run_case(idx, &mut out)
            }));
            CUR_IDX.store(IDLE, Ordering::SeqCst);
            if r.is_err() {
                let p = take_panic();
                job.on_panic(idx, p, &mut out);
            }
        }
        println!("done {}", out.to_json());
        let _ = std::io::stdout().flush();
    }
    0
}

pub struct PoolConfig {
    pub job: String,
    pub tier: Tier,
    pub extra_args: Vec<String>,
    pub chunk: u64,
    pub workers: usize,
}

/// Driver side: run all cases of `job` across worker processes and fold results into `report`.
pub fn run_pool(job: &dyn Job, cfg: &PoolConfig, report: &mut Report) {
    let n = job.n_cases();
    let mut chunks: VecDeque<(u64, u64, bool)> = VecDeque::new();
    let mut s = 0;
    while s < n {
        let e = (s + cfg.chunk).min(n);
        chunks.push_back((s, e, false));
        s = e;
    }
    let queue = Arc::new(Mutex::new(chunks));
    let results: Arc<Mutex<Vec<Value>>> = Arc::new(Mutex::new(vec![]));
    let hangs: Arc<Mutex<Vec<(u64, String)>>> = Arc::new(Mutex::new(vec![]));
    let errors: Arc<Mutex<Vec<String>>> = Arc::new(Mutex::new(vec![]));
    let exe = std::env::current_exe().unwrap();
    let nworkers = cfg.workers.max(1);
    // number of chunks handed out and not yet finished (their leftovers may be re-queued)
    let busy = Arc::new(AtomicU64::new(0));
    let mut handles = vec![];
    for _w in 0..nworkers {
        let queue = queue.clone();
        let results = results.clone();
        let hangs = hangs.clone();
        let errors = errors.clone();
        let busy = busy.clone();
        let exe = exe.clone();
        let jobname = cfg.job.clone();
        let tier = cfg.tier;
        let extra = cfg.extra_args.clone();
        handles.push(std::thread::spawn(move || {
            'respawn: loop {
                loop {
                    if !queue.lock().unwrap().is_empty() {
                        break;
                    }
                    if busy.load(Ordering::SeqCst) == 0 {
                        return;
                    }
                    std::thread::sleep(Duration::from_millis(20));
                }
                let mut child = match Command::new(&exe)
                    .arg("worker")
                    .arg(&jobname)
                    .arg(tier.name())
                    .args(&extra)
                    .stdin(Stdio::piped())
                    .stdout(Stdio::piped())
                    .stderr(Stdio::null())
                    .spawn()
                {
                    Ok(c) => c,
                    Err(e) => {
                        errors.lock().unwrap().push(format!("spawn failed: {e}"));
                        return;
                    }
                };
                let mut cin = child.stdin.take().unwrap();
                let mut cout = BufReader::new(child.stdout.take().unwrap());
                let mut line = String::new();
                // wait for "ready"
                line.clear();
                if cout.read_line(&mut line).unwrap_or(0) == 0 || line.trim() != "ready" {
                    let _ = child.kill();
                    let _ = child.wait();
                    errors
                        .lock()
                        .unwrap()
                        .push(format!("worker failed to start: {line:?}"));
                    return;
                }
                loop {
                    let next = {
                        let capped = hangs.lock().unwrap().len() >= MAX_HANGS;
                        let mut q = queue.lock().unwrap();
                        if capped {
                            q.clear();
                        }
                        let n = q.pop_front();
                        if n.is_some() {
                            busy.fetch_add(1, Ordering::SeqCst);
                        }
                        n
                    };
                    let Some((s, e, careful)) = next else {
                        if busy.load(Ordering::SeqCst) == 0 {
                            let _ = writeln!(cin, "quit");
                            let _ = child.wait();
                            return;
                        }
                        std::thread::sleep(Duration::from_millis(20));
                        continue;
                    };
                    if writeln!(cin, "run {s} {e}{}", if careful { " careful" } else { "" })
                        .is_err()
                    {
                        queue.lock().unwrap().push_front((s, e, careful));
                        busy.fetch_sub(1, Ordering::SeqCst);
                        let _ = child.kill();
                        let _ = child.wait();
                        continue 'respawn;
                    }
                    let _ = cin.flush();
                    let mut last_at: Option<u64> = None;
                    loop {
                        line.clear();
                        let got = cout.read_line(&mut line).unwrap_or(0);
                        if got == 0 {
                            // died silently
                            let _ = child.wait();
                            if careful {
                                if let Some(idx) = last_at {
                                    hangs.lock().unwrap().push((idx, "abort".into()));
                                    let mut q = queue.lock().unwrap();
                                    if s < idx {
                                        q.push_back((s, idx, false));
                                    }
                                    if idx + 1 < e {
                                        q.push_back((idx + 1, e, false));
                                    }
                                } else {
                                    errors.lock().unwrap().push(format!(
                                        "worker died before first case of careful chunk {s}..{e}"
                                    ));
                                }
                            } else {
                                queue.lock().unwrap().push_back((s, e, true));
                            }
                            busy.fetch_sub(1, Ordering::SeqCst);
                            continue 'respawn;
                        }
                        let l = line.trim_end();
                        if let Some(rest) = l.strip_prefix("done ") {
                            match serde_json::from_str::<Value>(rest) {
                                Ok(v) => results.lock().unwrap().push(v),
                                Err(err) => errors
                                    .lock()
                                    .unwrap()
                                    .push(format!("bad done line: {err}")),
                            }
                            busy.fetch_sub(1, Ordering::SeqCst);
                            break;
                        } else if let Some(rest) = l.strip_prefix("hang ") {
                            let idx: u64 = rest.trim().parse().unwrap_or(s);
                            let _ = child.wait();
                            hangs.lock().unwrap().push((idx, "hang".into()));
                            let mut q = queue.lock().unwrap();
                            if s < idx {
                                q.push_back((s, idx, false));
                            }
                            if idx + 1 < e {
                                q.push_back((idx + 1, e, false));
                            }
                            drop(q);
                            busy.fetch_sub(1, Ordering::SeqCst);
                            continue 'respawn;
                        } else if let Some(rest) = l.strip_prefix("at ") {
                            last_at = rest.trim().parse().ok();
                        }
                    }
                }
            }
        }));
    }
    for h in handles {
        let _ = h.join();
    }
    for e in errors.lock().unwrap().iter() {
        report.machinery(e.clone());
    }
    let mut counters: BTreeMap<String, u64> = BTreeMap::new();
    for r in results.lock().unwrap().iter() {
        if let Some(c) = r["counters"].as_object() {
            for (k, v) in c {
                *counters.entry(k.clone()).or_insert(0) += v.as_u64().unwrap_or(0);
            }
        }
        if let Some(o) = r["outcomes"].as_array() {
            for h in o {
                if let Some(h) = h.as_u64() {
                    report.outcomes.insert(h);
                }
            }
        }
        if let Some(vs) = r["viols"].as_array() {
            for v in vs {
                report.violation_n(
                    Violation {
                        sig: v["sig"].as_str().unwrap_or("").to_string(),
                        case: v["case"].clone(),
                        detail: v["detail"].clone(),
                    },
                    v["n"].as_u64().unwrap_or(1),
                );
            }
        }
        if let Some(ss) = r["samples"].as_array() {
            for s in ss {
                report.sample(s.clone());
            }
        }
    }
    for (k, v) in counters {
        report.add(&k, v);
    }
    let mut hs = hangs.lock().unwrap().clone();
    hs.sort();
    hs.dedup();
    report.add("hangs_or_aborts", hs.len() as u64);
    if hs.len() >= MAX_HANGS {
        report.set("stopped_early_after_hangs", true);
    }
    for (idx, kind) in hs {
        if let Some(v) = job.on_hang(idx, &kind) {
            report.violation(v);
        }
    }
}

/// Simple in-process parallel map over index ranges (for jobs that cannot hang).
pub fn par_chunks<T: Send>(
    n: u64,
    chunk: u64,
    threads: usize,
    f: impl Fn(u64, u64) -> T + Sync,
) -> Vec<T> {
    let next = AtomicU64::new(0);
    let out: Mutex<Vec<(u64, T)>> = Mutex::new(vec![]);
    std::thread::scope(|sc| {
        for _ in 0..threads.max(1) {
            sc.spawn(|| {
                loop {
                    let s = next.fetch_add(chunk, Ordering::SeqCst);
                    if s >= n {
                        break;
                    }
                    let e = (s + chunk).min(n);
                    let r = f(s, e);
                    out.lock().unwrap().push((s, r));
                }
            });
        }
    });
    let mut v = out.into_inner().unwrap();
    v.sort_by_key(|x| x.0);
    v.into_iter().map(|x| x.1).collect()
}
