//! C19 — statistics log round trip (engine E2: histories of append sessions).

use crate::util::*;
use harper_core::linting::{LintGroupConfig, LintKind};
use harper_core::{FatStringToken, TokenKind};
use harper_stats::{Record, RecordKind, Stats};
use serde_json::{Value, json};
use std::collections::BTreeSet;

fn word(s: &str) -> FatStringToken {
    FatStringToken {
        content: s.to_string(),
        kind: TokenKind::Word(None),
    }
}

/// The record alphabet: every class of awkward text, both record kinds.
pub fn alphabet() -> Vec<Record> {
    let uuid = |n: u128| uuid::Uuid::from_u128(0x1234_5678_0000_0000_0000_0000_0000_0000 + n);
    let mut cfg = LintGroupConfig::default();
    cfg.set_rule_enabled("SpellCheck", false);
    let kinds = vec![
        RecordKind::Lint {
            kind: LintKind::Spelling,
            context: vec![],
        },
        RecordKind::Lint {
            kind: LintKind::Spelling,
            context: vec![word("a\nb")],
        },
        RecordKind::Lint {
            kind: LintKind::Capitalization,
            context: vec![word("q\"\\\r\u{2028}\u{0}😀\u{85}\u{7f}𝒳")],
        },
        RecordKind::Lint {
            kind: LintKind::Style,
            context: vec![word("teh"), FatStringToken { content: " ".into(), kind: TokenKind::Space(1) }, word("teh")],
        },
        RecordKind::LintConfigUpdate(LintGroupConfig::default()),
        RecordKind::LintConfigUpdate(cfg),
    ];
    kinds
        .into_iter()
        .enumerate()
        .map(|(i, kind)| Record {
            kind,
            when: 1_700_000_000 + i as i64,
            uuid: uuid(i as u128),
        })
        .collect()
}


const ALL_KINDS: [LintKind; 10] = [
    LintKind::Spelling,
    LintKind::Capitalization,
    LintKind::Style,
    LintKind::Formatting,
    LintKind::Repetition,
    LintKind::Enhancement,
    LintKind::Readability,
    LintKind::WordChoice,
    LintKind::Miscellaneous,
    LintKind::Punctuation,
];

/// Texts whose token streams serve as captured contexts.
fn real_context_texts(tier: Tier) -> Vec<String> {
    // compile-time reminder: a new LintKind variant must be added to ALL_KINDS
    let _ = |k: LintKind| match k {
        LintKind::Spelling | LintKind::Capitalization | LintKind::Style | LintKind::Formatting | LintKind::Repetition | LintKind::Enhancement | LintKind::Readability | LintKind::WordChoice | LintKind::Miscellaneous | LintKind::Punctuation => (),
    };
    let mut v: Vec<String> = vec![
        "".into(),
        "She said \u{201c}teh\u{201d} (twice) \u{2014} at 3rd & Main, e.g. on 1st St.; see https://a.example/x?y=1 or mail joe@example.com.\n\nNext paragraph:\t$5 0x1F 1990s it's [a-z] #tag @me 50% \u{2026} !".into(),
        "It cost 1e999 dollars.".into(),
        format!("The number {} is big.", "9".repeat(400)),
        "Values 1e308 1e309 1.7976931348623157e308 1.7976931348623159e308 5e-324 2e-324 0.0 0 00 1e-400.".into(),
    ];
    // decimal literals of every length
    for n in 1..=40usize {
        v.push(format!("Pi is {} or so.", &"3.14159265358979323846264338327950288419716939937510"[..n + 1]));
        v.push(format!("Count {} things.", &"1234567890123456789012345678901234567890"[..n]));
    }
    // shortest-round-trip renderings: the values a lexer meets when a program printed them
    let n_max = tier.pick(3000, 60000) as u64;
    for n in 1..=n_max {
        v.push(format!("Ratio {:?} here.", 1.0 / n as f64));
        v.push(format!("Angle {:?} there.", n as f64 * std::f64::consts::PI));
        v.push(format!("Tiny {:e} value.", (n as f64).powi(-17)));
    }
    // three-digit mantissa, every decimal exponent
    for m in (100..1000).step_by(tier.pick(7, 1)) {
        for e in -330..=310 {
            if tier == Tier::Quick && e % 5 != 0 {
                continue;
            }
            v.push(format!("Mass {}.{}e{} units.", m / 100, m % 100, e));
        }
    }
    v
}

fn ref_summary(records: &[Record]) -> (u32, Vec<(String, u32)>, Vec<(String, u32)>) {
    let mut total = 0;
    let mut per_kind: std::collections::BTreeMap<String, u32> = Default::default();
    let mut miss: std::collections::BTreeMap<String, u32> = Default::default();
    for r in records {
        if let RecordKind::Lint { kind, context } = &r.kind {
            total += 1;
            *per_kind.entry(format!("{kind:?}")).or_insert(0) += 1;
            for t in context {
                if matches!(t.kind, TokenKind::Word(None)) {
                    *miss.entry(t.content.clone()).or_insert(0) += 1;
                }
            }
        }
    }
    (total, per_kind.into_iter().collect(), miss.into_iter().collect())
}

/// All ways of cutting `n` items into at most 3 consecutive (possibly empty) sessions.
fn cuts(n: usize) -> Vec<(usize, usize)> {
    let mut v = vec![];
    for a in 0..=n {
        for b in a..=n {
            v.push((a, b));
        }
    }
    v
}

pub fn check_history(list: &[Record], cut: (usize, usize)) -> Option<(String, Value)> {
    let sessions = [&list[..cut.0], &list[cut.0..cut.1], &list[cut.1..]];
    let mut buf: Vec<u8> = vec![];
    for s in sessions {
        let st = Stats { records: s.to_vec() };
        if let Err(e) = st.write(&mut buf) {
            return Some(("write-failed".into(), json!({"error": e.to_string()})));
        }
    }
    // every serialised record is exactly one \n-terminated line
    let text = String::from_utf8_lossy(&buf).to_string();
    let n_lines = buf.iter().filter(|b| **b == b'\n').count();
    if n_lines != list.len() || (!buf.is_empty() && *buf.last().unwrap() != b'\n') {
        return Some((
            "not-one-line-per-record".into(),
            json!({"records": list.len(), "newlines": n_lines, "file": text}),
        ));
    }
    if text.lines().count() != list.len() {
        return Some((
            "line-iterator-disagrees".into(),
            json!({"records": list.len(), "lines": text.lines().count()}),
        ));
    }
    let back = match Stats::read(&mut std::io::Cursor::new(&buf)) {
        Ok(b) => b,
        Err(e) => {
            return Some(("read-failed".into(), json!({"error": e.to_string(), "file": text})));
        }
    };
    if back.records != list {
        return Some((
            "records-differ-after-round-trip".into(),
            json!({"file": text, "read_back": format!("{:?}", back.records).chars().take(600).collect::<String>()}),
        ));
    }
    // summary
    let sum = back.summarize();
    let (total, per_kind, miss) = ref_summary(list);
    if sum.total_applied != total {
        return Some(("summary-total-wrong".into(), json!({"got": sum.total_applied, "want": total})));
    }
    let mut got_kinds: Vec<(String, u32)> = sum.lint_counts.iter().map(|(k, v)| (format!("{k:?}"), *v)).collect();
    got_kinds.sort();
    if got_kinds != per_kind {
        return Some(("summary-per-kind-wrong".into(), json!({"got": got_kinds, "want": per_kind})));
    }
    let mut got_miss: Vec<(String, u32)> = sum.misspelled.iter().map(|(k, v)| (k.clone(), *v)).collect();
    got_miss.sort();
    if got_miss != miss {
        return Some(("summary-misspelled-wrong".into(), json!({"got": got_miss, "want": miss})));
    }
    None
}

fn describe(list_idx: &[usize], cut: (usize, usize)) -> Value {
    json!({"engine":"E2","object":"stats-log","records": list_idx, "sessions_cut_at": [cut.0, cut.1]})
}

pub fn run(tier: Tier) -> i32 {
    let mut report = Report::new("C19", tier, "model_checking");
    let alpha = alphabet();
    let k = alpha.len();
    let maxlen = tier.pick(4, 7);
    let mut states: BTreeSet<u64> = BTreeSet::new();
    let mut transitions = 0u64;
    let mut traces = 0u64;
    // enumerate all record lists up to maxlen (shortlex), all cuts
    let mut lists: Vec<Vec<usize>> = vec![vec![]];
    let mut frontier: Vec<Vec<usize>> = vec![vec![]];
    for _ in 0..maxlen {
        let mut next = vec![];
        for l in &frontier {
            for a in 0..k {
                let mut m = l.clone();
                m.push(a);
                next.push(m);
            }
        }
        lists.extend(next.iter().cloned());
        frontier = next;
    }
    let results = crate::pool::par_chunks(lists.len() as u64, 200, ncpu(), |s, e| {
        let mut viols = vec![];
        let mut st = BTreeSet::new();
        let mut tr = 0u64;
        let mut traces = 0u64;
        for li in s..e {
            let idxs = &lists[li as usize];
            let recs: Vec<Record> = idxs.iter().map(|i| alpha[*i].clone()).collect();
            for cut in cuts(recs.len()) {
                traces += 1;
                tr += 3; // three append sessions
                let r = catch(|| check_history(&recs, cut));
                let problem = match r {
                    Ok(p) => p,
                    Err(p) => Some(("panic".into(), json!({"msg": p.msg}))),
                };
                // canonical state = file content
                let mut buf = vec![];
                let _ = Stats { records: recs.clone() }.write(&mut buf);
                st.insert(h64(&buf));
                if let Some((sig, detail)) = problem {
                    if viols.len() < 5 {
                        viols.push(Violation { sig, case: describe(idxs, cut), detail });
                    }
                }
            }
        }
        (st, tr, traces, viols)
    });
    for (st, tr, t, vs) in results {
        states.extend(st);
        transitions += tr;
        traces += t;
        for v in vs {
            report.violation(v);
        }
    }

    // long logs: records full of multi-byte characters, enough of them to span several read
    // buffers, shifted byte by byte so that every buffer boundary falls inside a character once
    {
        let uuid = |n: u128| uuid::Uuid::from_u128(0x9999_0000_0000_0000_0000_0000_0000_0000 + n);
        let mut long_traces = 0u64;
        for (ci, ch) in ["é", "世", "😀", "a\u{301}"].iter().enumerate() {
            for shift in 0..12usize {
                let mut recs: Vec<Record> = vec![Record { kind: RecordKind::Lint { kind: LintKind::Spelling, context: vec![word(&"x".repeat(shift))] }, when: 1_700_000_000, uuid: uuid(0) }];
                for k in 0..120u128 {
                    recs.push(Record { kind: RecordKind::Lint { kind: LintKind::Style, context: vec![word(&ch.repeat(37)), word("teh")] }, when: 1_700_000_001 + k as i64, uuid: uuid(k + 1) });
                }
                long_traces += 1;
                transitions += 1;
                let problem = match catch(|| check_history(&recs, (recs.len() / 2, recs.len()))) {
                    Ok(p) => p,
                    Err(p) => Some(("panic".into(), json!({"msg": p.msg}))),
                };
                if let Some((sig, detail)) = problem {
                    let d = detail.to_string();
                    report.violation(Violation { sig: format!("long-log:{sig}"), case: json!({"engine":"E2","object":"stats-log","records": format!("1 record with a {shift}-letter context, then 120 records whose context is 37 x {:?}", ch), "character_class": ci, "shift": shift}), detail: json!({"detail": d.chars().take(300).collect::<String>()}) });
                }
            }
        }
        traces += long_traces;
        report.set("long_logs", long_traces);
    }


    // real contexts: what a front-end captures is the token stream of the flagged text, so the
    // records hold every token kind the lexer can produce — numbers carry their parsed f64 value.
    // Every LintKind, every text of a structured family (all token kinds, decimal literals of
    // every length, shortest-round-trip renderings of 1/n and n*pi, literals beyond f64's range).
    {
        let texts = real_context_texts(tier);
        let uuid = |n: u128| uuid::Uuid::from_u128(0x7777_0000_0000_0000_0000_0000_0000_0000 + n);
        let ntexts = texts.len() as u64;
        let res = crate::pool::par_chunks(ntexts, 64, ncpu(), |s, e| {
            let mut viols: Vec<Violation> = vec![];
            let mut kinds_seen: BTreeSet<String> = BTreeSet::new();
            for i in s..e {
                let text = &texts[i as usize];
                let doc = harper_core::Document::new_plain_english_curated(text);
                let context: Vec<FatStringToken> = doc.fat_string_tokens().collect();
                for t in &context {
                    kinds_seen.insert(format!("{:?}", t.kind).split(['(', ' ', '{']).next().unwrap_or("").to_string());
                }
                let recs: Vec<Record> = ALL_KINDS
                    .iter()
                    .enumerate()
                    .map(|(k, kind)| Record { kind: RecordKind::Lint { kind: *kind, context: context.clone() }, when: 1_700_000_000 + k as i64, uuid: uuid(i as u128 * 16 + k as u128) })
                    .collect();
                // all ten in one session, and cut into three
                for cut in [(recs.len(), recs.len()), (3, 7)] {
                    let problem = match catch(|| check_history(&recs, cut)) {
                        Ok(p) => p,
                        Err(p) => Some(("panic".into(), json!({"msg": p.msg}))),
                    };
                    if let Some((sig, detail)) = problem {
                        // name the cause: which token does not survive on its own?
                        let mut cause = "other".to_string();
                        for t in &context {
                            let one = serde_json::to_string(t).ok().and_then(|j| serde_json::from_str::<FatStringToken>(&j).ok());
                            if one.as_ref() != Some(t) {
                                cause = match &t.kind {
                                    TokenKind::Number(n) if !n.value.0.is_finite() => "number-beyond-f64-range".into(),
                                    TokenKind::Number(_) => "number-value-changes".into(),
                                    k => format!("token:{}", format!("{k:?}").split(['(', ' ', '{']).next().unwrap_or("")),
                                };
                                break;
                            }
                        }
                        if cause == "other" {
                            // the tokens survive on their own: which kind of lint does not?
                            for kind in ALL_KINDS {
                                let one = serde_json::to_string(&kind).ok().and_then(|j| serde_json::from_str::<LintKind>(&j).ok());
                                if one != Some(kind) {
                                    cause = format!("lint-kind:{kind:?}");
                                    break;
                                }
                            }
                        }
                        let d = detail.to_string();
                        viols.push(Violation { sig: format!("real-context:{sig}:{cause}"), case: json!({"engine":"E2","object":"stats-log","real_context_text": text, "sessions_cut_at": [cut.0, cut.1]}), detail: json!({"detail": d.chars().take(400).collect::<String>()}) });
                        break;
                    }
                }
            }
            (viols, kinds_seen)
        });
        let mut kinds_seen: BTreeSet<String> = BTreeSet::new();
        for (vs, ks) in res {
            kinds_seen.extend(ks);
            for v in vs {
                report.violation(v);
            }
        }
        traces += 2 * ntexts;
        transitions += 4 * ntexts;
        report.set("real_context_texts", ntexts);
        report.set("real_context_token_kinds", json!(kinds_seen.into_iter().collect::<Vec<_>>()));
    }

    // wasm path: records enter through apply_suggestion / import_stats_file
    let wasm_traces = wasm_round_trip(&mut report, tier);
    traces += wasm_traces;
    // server path: HarperRecordLint commands, the log appended at every shutdown
    let server_traces = server_sessions(&mut report, tier);
    traces += server_traces;
    report.set("server_histories", server_traces);

    report.set("states", states.len() as u64);
    report.set("transitions", transitions);
    report.set("traces_validated_against_impl", traces);
    report.set("record_alphabet", k as u64);
    report.set("max_list_length", maxlen as u64);
    report.set("exhaustive", true);
    report.outcomes.extend(states.iter().take(1000).cloned());
    report.sample(describe(&[1, 2, 5], (1, 2)));
    report.sample(json!({"engine":"E2","object":"stats-log","alphabet": alpha.iter().map(|r| serde_json::to_value(r).unwrap()).collect::<Vec<_>>()}));
    report.assume("record lists up to the length bound over a 6-record alphabet covering newline, quote, backslash, CR, U+2028, NUL, U+0085, DEL, astral characters");
    report.assume("the explored object is the implementation (Stats::write/read/summarize, harper_wasm::Linter stats methods); every trace is an execution of it");
    report.finish()
}

/// One server history (operation index 6 = shutdown and new server); the final shutdown is implied.
fn server_history(seq: &[usize]) -> Result<Option<(String, Value)>, String> {
    use crate::c09::Session;
    let alpha = alphabet();
    let restart = alpha.len();
    let mut sess = Session::new("c19")?;
    let mut want: Vec<RecordKind> = vec![];
    let mut ops: Vec<usize> = seq.to_vec();
    ops.push(restart); // the final shutdown
    for o in &ops {
        if *o == restart {
            let req = sess.server.request("shutdown", Value::Null);
            sess.server.enqueue("shutdown", req);
            sess.server.run_default()?;
            sess.restart()?;
        } else {
            let arg = serde_json::to_string(&alpha[*o].kind).map_err(|e| e.to_string())?;
            let req = sess.server.request("workspace/executeCommand", json!({"command": "HarperRecordLint", "arguments": [arg]}));
            sess.server.enqueue("record", req);
            sess.server.run_default()?;
            want.push(alpha[*o].kind.clone());
        }
    }
    let bytes = std::fs::read(&sess.world.stats).unwrap_or_default();
    let text = String::from_utf8_lossy(&bytes).to_string();
    sess.world.cleanup();
    let back = match Stats::read(&mut std::io::Cursor::new(&bytes)) {
        Ok(b) => b,
        Err(e) => return Ok(Some(("server:log-unreadable".into(), json!({"error": e.to_string(), "file": text})))),
    };
    let got: Vec<&RecordKind> = back.records.iter().map(|r| &r.kind).collect();
    if got.len() != want.len() || got.iter().zip(want.iter()).any(|(a, b)| *a != b) {
        return Ok(Some(("server:log-differs-from-recorded".into(), json!({"recorded": want.len(), "read_back": got.len(), "file": text}))));
    }
    let ids: BTreeSet<String> = back.records.iter().map(|r| r.uuid.to_string()).collect();
    if ids.len() != back.records.len() {
        return Ok(Some(("server:record-identifiers-repeat".into(), json!({"file": text}))));
    }
    let recs: Vec<Record> = back.records.clone();
    let (total, _, _) = ref_summary(&recs);
    if back.summarize().total_applied != total {
        return Ok(Some(("server:summary-total-wrong".into(), json!({"got": back.summarize().total_applied, "want": total}))));
    }
    Ok(None)
}

/// harper-ls: every history over {HarperRecordLint(kind k), shutdown + new server process} on one
/// statistics file; after the final shutdown the real reader must return exactly the recorded
/// kinds, in order, each with its own identifier, and the summary must count each once.
fn server_sessions(report: &mut Report, tier: Tier) -> u64 {

    crate::e3::sandbox_env();
    let alpha = alphabet();
    let k = alpha.len();
    let restart = k; // operation index of "shutdown, start a new server"
    let depth = tier.pick(3, 4);
    let seqs = crate::e2::sequences(k + 1, depth);
    let results = crate::pool::par_chunks(seqs.len() as u64, 8, ncpu(), |s, e| {
        let mut viols = vec![];
        let mut traces = 0u64;
        for i in s..e {
            let seq = &seqs[i as usize];
            traces += 1;
            let case = json!({"engine":"E3","object":"harper-ls statistics","history": seq.iter().map(|o| if *o == restart { "shutdown; new server".to_string() } else { format!("HarperRecordLint(record kind {o})") }).collect::<Vec<_>>(), "ops": seq});
            let r = catch(|| server_history(seq));
            match r {
                Ok(Ok(None)) => {}
                Ok(Ok(Some((sig, detail)))) => {
                    if viols.len() < 3 {
                        viols.push(Violation { sig, case, detail });
                    }
                }
                Ok(Err(e)) => viols.push(Violation { sig: format!("machinery: {e}"), case, detail: json!({}) }),
                Err(p) => viols.push(Violation { sig: "server:panic".into(), case, detail: json!({"msg": p.msg}) }),
            }
        }
        (traces, viols)
    });
    let mut t = 0;
    for (tr, vs) in results {
        t += tr;
        for v in vs {
            if v.sig.starts_with("machinery") {
                report.machinery(v.sig);
            } else {
                report.violation(v);
            }
        }
    }
    t
}

/// harper_wasm::Linter: apply_suggestion records a lint; generate_stats_file / import_stats_file.
fn wasm_round_trip(report: &mut Report, tier: Tier) -> u64 {
    use harper_wasm::{Dialect, Language, Linter};
    let texts = [
        "This is an test.",
        "An  “quoted\\” teh 😀 wrd\there.",
        "naïve caf\u{e9} teh\u{2028}teh and and.",
        "x\u{0}y teh.",
    ];
    let mut traces = 0u64;
    let maxops = tier.pick(3, 4);
    // histories: sequences of texts (apply first suggestion of every lint), cut into two files
    let mut seqs: Vec<Vec<usize>> = vec![vec![]];
    let mut frontier = vec![vec![]];
    for _ in 0..maxops {
        let mut next = vec![];
        for l in &frontier {
            for a in 0..texts.len() {
                let mut m: Vec<usize> = l.clone();
                m.push(a);
                next.push(m);
            }
        }
        seqs.extend(next.iter().cloned());
        frontier = next;
    }
    let results = crate::pool::par_chunks(seqs.len() as u64, 8, ncpu(), |s, e| {
        let mut viols = vec![];
        let mut traces = 0u64;
        for si in s..e {
            let seq = &seqs[si as usize];
            for cut in 0..=seq.len() {
                traces += 1;
                let r = catch(|| {
                    let mut files = vec![];
                    let mut counts = vec![];
                    for part in [&seq[..cut], &seq[cut..]] {
                        let mut a = Linter::new(Dialect::American);
                        let mut n = 0;
                        for ti in part {
                            let t = texts[*ti].to_string();
                            let lints = a.lint(t.clone(), Language::Plain);
                            for l in &lints {
                                if let Some(sg) = l.suggestions().first() {
                                    let _ = a.apply_suggestion(t.clone(), l, sg);
                                    n += 1;
                                }
                            }
                        }
                        files.push(a.generate_stats_file());
                        counts.push(n);
                    }
                    let mut b = Linter::new(Dialect::American);
                    for f in &files {
                        if let Err(e) = b.import_stats_file(f.clone()) {
                            return Some(("wasm-import-failed".to_string(), json!({"error": e, "file": f})));
                        }
                    }
                    let out = b.generate_stats_file();
                    let want = files.concat();
                    if out != want {
                        return Some(("wasm-export-differs-from-imported".to_string(), json!({"got": out, "want": want})));
                    }
                    let lines = out.lines().count();
                    if lines != counts.iter().sum::<usize>() {
                        return Some(("wasm-line-count-differs".to_string(), json!({"lines": lines, "records": counts})));
                    }
                    None
                });
                let problem = match r {
                    Ok(p) => p,
                    Err(p) => Some(("wasm-panic".into(), json!({"msg": p.msg}))),
                };
                if let Some((sig, detail)) = problem {
                    if viols.len() < 3 {
                        viols.push(Violation {
                            sig,
                            case: json!({"engine":"E2","object":"harper_wasm::Linter","texts": seq.iter().map(|i| texts[*i]).collect::<Vec<_>>(), "cut": cut}),
                            detail,
                        });
                    }
                }
            }
        }
        (traces, viols)
    });
    for (t, vs) in results {
        traces += t;
        for v in vs {
            report.violation(v);
        }
    }
    report.set("wasm_histories", traces);
    traces
}

pub fn replay(case: &Value) -> Vec<(String, Value)> {
    let alpha = alphabet();
    if case["object"] == "harper-ls statistics" {
        crate::e3::sandbox_env();
        let seq: Vec<usize> = case["ops"].as_array().map(|a| a.iter().filter_map(|x| x.as_u64().map(|v| v as usize)).collect()).unwrap_or_default();
        if seq.iter().any(|i| *i > alpha.len()) {
            return vec![("bad-replay-file".into(), json!({}))];
        }
        return match catch(|| server_history(&seq)) {
            Ok(Ok(None)) => vec![],
            Ok(Ok(Some(p))) => vec![p],
            Ok(Err(e)) => vec![(format!("machinery: {e}"), json!({}))],
            Err(p) => vec![("server:panic".into(), json!({"msg": p.msg}))],
        };
    }
    if let Some(text) = case["real_context_text"].as_str() {
        let doc = harper_core::Document::new_plain_english_curated(text);
        let context: Vec<FatStringToken> = doc.fat_string_tokens().collect();
        let recs: Vec<Record> = ALL_KINDS
            .iter()
            .enumerate()
            .map(|(k, kind)| Record { kind: RecordKind::Lint { kind: *kind, context: context.clone() }, when: 1_700_000_000 + k as i64, uuid: uuid::Uuid::from_u128(0x7777_0000_0000_0000_0000_0000_0000_0000 + k as u128) })
            .collect();
        let cut = case["sessions_cut_at"].as_array().map(|a| (a[0].as_u64().unwrap_or(0) as usize, a[1].as_u64().unwrap_or(0) as usize)).unwrap_or((10, 10));
        if cut.0 > cut.1 || cut.1 > recs.len() {
            return vec![("bad-replay-file".into(), json!({}))];
        }
        return match catch(|| check_history(&recs, cut)) {
            Ok(Some((sig, d))) => vec![(format!("real-context:{sig}"), d)],
            Ok(None) => vec![],
            Err(p) => vec![("real-context:panic".into(), json!({"msg": p.msg}))],
        };
    }
    let idx: Vec<usize> = case["records"].as_array().map(|a| a.iter().filter_map(|x| x.as_u64().map(|v| v as usize)).collect()).unwrap_or_default();
    if idx.iter().any(|i| *i >= alpha.len()) {
        return vec![("bad-replay-file".into(), json!({}))];
    }
    let recs: Vec<Record> = idx.iter().map(|i| alpha[*i].clone()).collect();
    let cut = case["sessions_cut_at"].as_array().map(|a| (a[0].as_u64().unwrap_or(0) as usize, a[1].as_u64().unwrap_or(0) as usize)).unwrap_or((0, 0));
    if cut.0 > cut.1 || cut.1 > recs.len() {
        return vec![("bad-replay-file".into(), json!({}))];
    }
    match catch(|| check_history(&recs, cut)) {
        Ok(Some(p)) => vec![p],
        Ok(None) => vec![],
        Err(p) => vec![("panic".into(), json!({"msg": p.msg}))],
    }
}
