//! C09 — the language server's last word on a document reflects the latest text (engine E3).
//! Also hosts the client model shared with C07/C08/C10.

use crate::e3::{Event, Server, World};
use crate::util::*;
use harper_core::linting::{Lint, LintGroup, LintGroupConfig, Linter};
use harper_core::parsers::{Markdown, Parser, PlainEnglish};
use harper_core::{Dialect, Document, IgnoredLints};
use serde_json::{Value, json};
use std::collections::{BTreeMap, BTreeSet};

pub const TEXTS: &[&str] = &[
    "I like my tset.",
    "This is an tset of teh colour. See [the lnk](http://x.co) now.\n\nCeci n'est pas du tout une phrase en anglais.",
    "All is fine here.",
    "Ünï 😀 teh tset.\nSecond line an apple",
    "The tset and thw met naïvité, O'Brienx and ŁÓDŹx in an hour.",
    "Again thw, ŁÓDŹx, tset; then naïvité left O'Brienx there there.",
    "Tset is here, teh thing. TSET too.",
    "The tset and Tset met thw; naïvité and ŁÓDŹx in an hour.",
    // the same content twice: index 9 is opened with the OTHER language id (see `lang_for`)
    "Some `cde` here and teh *end*.",
    "Some `cde` here and teh *end*.",
    // indices 10 and 11 are opened as Rust sources (see `lang_for`): the server derives an
    // identifier dictionary from the code and rebuilds the document's linter when the set of
    // identifiers changes — which it does between these two
    "// This comment has a problm in it.\n// It calls hlper and teh main.\nfn main() {}\n",
    "// This comment has a problm in it.\n// It calls hlper and teh main.\nfn main() { hlper(); }\nfn hlper() {}\n",
];

/// The language id the editor sends when it opens document `d` with text `t`: document 0 is a
/// Markdown file, document 1 a plain-text buffer — except that text 9 is opened as Markdown (the
/// user switched the buffer's file type), so close + reopen can change a document's language.
pub fn lang_for(d: usize, t: usize) -> &'static str {
    if t >= 10 {
        "rust"
    } else if d == 0 || t == 9 {
        "markdown"
    } else {
        "plaintext"
    }
}

#[derive(Clone, Debug, PartialEq)]
pub enum Op {
    Open(usize, usize),
    Change(usize, usize),
    Save(usize),
    Close(usize),
    AddUser(usize, &'static str),
    AddFile(usize, &'static str),
    Config(usize),
    Delete(usize),
    /// textDocument/codeAction at the start of the document (no client-side effect)
    CodeAction(usize),
    /// HarperIgnoreLint for the first lint currently reported in the document
    Ignore(usize),
    /// shutdown request: the server clears diagnostics of every open buffer and saves statistics
    Shutdown,
}

pub const CONFIGS: &[&str] = &[r#"{}"#, r#"{"SpellCheck": false}"#, r#"{"AnA": false}"#, r#"{}"#];
/// the other settings of each configuration: (dialect, isolateEnglish, markdown.IgnoreLinkTitle)
pub const CONFIG_EXTRAS: &[(&str, bool, bool)] = &[("American", false, false), ("American", false, false), ("British", false, true), ("American", true, false)];

pub fn dialect_of(cfg: usize) -> Dialect {
    match CONFIG_EXTRAS[cfg].0 {
        "British" => Dialect::British,
        _ => Dialect::American,
    }
}

#[derive(Clone, Debug)]
pub struct ClientDoc {
    pub name: &'static str,
    pub lang: &'static str,
    pub open: bool,
    pub ever_opened: bool,
    pub text: String,
    pub has_file: bool,
    /// the editor names the file by an equivalent, differently percent-encoded URI (C07)
    pub alt: bool,
}

#[derive(Clone, Debug)]
pub struct Client {
    pub docs: Vec<ClientDoc>,
    pub user_words: BTreeSet<String>,
    pub file_words: Vec<BTreeSet<String>>,
    pub config: usize,
    /// lints the user ignored, per document: (text at that time, lint); dropped when the document is closed
    pub ignored: Vec<Vec<(String, Lint)>>,
    /// a shutdown request was sent: nothing may follow, and the per-document oracle no longer applies
    pub shut_down: bool,
}

impl Client {
    pub fn new() -> Self {
        Self {
            docs: vec![
                ClientDoc { name: "a.md", lang: "markdown", open: false, ever_opened: false, text: String::new(), has_file: true, alt: false },
                ClientDoc { name: "b.txt", lang: "plaintext", open: false, ever_opened: false, text: String::new(), has_file: false, alt: false },
            ],
            user_words: BTreeSet::new(),
            file_words: vec![BTreeSet::new(), BTreeSet::new()],
            config: 0,
            ignored: vec![vec![], vec![]],
            shut_down: false,
        }
    }
}

pub fn lint_cfg(idx: usize) -> LintGroupConfig {
    serde_json::from_str(CONFIGS[idx]).unwrap()
}

/// Words the reference spell checker flags in `text` (what an editor would offer to add).
pub fn flagged_words(text: &str, lang: &str, words: &BTreeSet<String>, cfg: usize) -> BTreeSet<String> {
    let chars = s2c(text);
    ref_lints(text, lang, words, cfg, &[])
        .iter()
        .filter(|l| l.lint_kind.is_spelling())
        .map(|l| chars[l.span.start..l.span.end].iter().collect())
        .collect()
}

thread_local! {
    static REF_GROUPS: std::cell::RefCell<BTreeMap<String, LintGroup>> = std::cell::RefCell::new(BTreeMap::new());
    static REF_NONCE: std::cell::Cell<u64> = const { std::cell::Cell::new(0) };
}

pub fn parser_for(lang: &str) -> Box<dyn Parser> {
    match lang {
        "markdown" => Box::new(Markdown::default()),
        _ => Box::new(PlainEnglish),
    }
}

/// The parser the server composes for `lang` under configuration `cfg`.
pub fn parser_for_cfg(lang: &str, cfg: usize, dict: std::sync::Arc<harper_core::MergedDictionary>) -> Box<dyn Parser> {
    let (_, isolate, ilt) = CONFIG_EXTRAS[cfg];
    let base: Box<dyn Parser> = match lang {
        "markdown" => Box::new(Markdown::new(crate::frontends::md_opts(ilt))),
        _ => Box::new(PlainEnglish),
    };
    if isolate { Box::new(harper_core::parsers::IsolateEnglish::new(base, dict)) } else { base }
}

/// Fresh reference lints: curated + given words, configuration = curated overlaid by user choices.
pub fn ref_lints(text: &str, lang: &str, words: &BTreeSet<String>, cfg: usize, ignored: &[(String, Lint)]) -> Vec<Lint> {
    let dict = crate::e2::ref_dict(words);
    let key = format!("{words:?}|{cfg}");
    REF_GROUPS.with(|g| {
        let mut g = g.borrow_mut();
        if g.len() > 48 {
            g.clear();
        }
        let group = g.entry(key).or_insert_with(|| {
            let mut c = lint_cfg(cfg);
            c.fill_with_curated();
            LintGroup::new_curated(dict.clone(), dialect_of(cfg)).with_lint_config(c)
        });
        if lang == "rust" {
            return ref_lints_rust(text, &dict, cfg, ignored);
        }
        let parser = parser_for_cfg(lang, cfg, dict.clone());
        let doc = Document::new(text, &parser, &dict);
        let mut nonce = REF_NONCE.with(|n| n.get());
        let mut lints = crate::c12::lint_uncached(group, &doc, &mut nonce);
        group.config.unset_rule_enabled(format!("__verif_nonce_{nonce}"));
        REF_NONCE.with(|n| n.set(nonce));
        if !ignored.is_empty() {
            let mut ig = IgnoredLints::new();
            for (t, l) in ignored {
                let d = Document::new(t, &parser, &dict);
                ig.ignore_lint(l, &d);
            }
            ig.remove_ignored(&mut lints, &doc);
        }
        lints
    })
}

/// What the server composes for a tree-sitter language: comment parser, identifier dictionary
/// from the source merged into the document's dictionary, `CollapseIdentifiers`, a linter built
/// over the merged dictionary. Built afresh for every call (the identifier set is part of it).
fn ref_lints_rust(text: &str, base: &std::sync::Arc<harper_core::MergedDictionary>, cfg: usize, ignored: &[(String, Lint)]) -> Vec<Lint> {
    use harper_core::parsers::CollapseIdentifiers;
    use std::sync::Arc;
    let (_, isolate, ilt) = CONFIG_EXTRAS[cfg];
    let compose = |text: &str| -> (Box<dyn Parser>, Arc<harper_core::MergedDictionary>) {
        let p = harper_comments::CommentParser::new_from_language_id("rust", crate::frontends::md_opts(ilt)).expect("rust is a supported language id");
        let chars = Arc::new(s2c(text));
        let (mut parser, dict): (Box<dyn Parser>, Arc<harper_core::MergedDictionary>) = match p.create_ident_dict(&chars) {
            Some(id) => {
                let mut m = (**base).clone();
                m.add_dictionary(Arc::new(id));
                let m = Arc::new(m);
                (Box::new(CollapseIdentifiers::new(Box::new(p), Box::new(m.clone()))), m)
            }
            None => (Box::new(p), base.clone()),
        };
        if isolate {
            parser = Box::new(harper_core::parsers::IsolateEnglish::new(parser, dict.clone()));
        }
        (parser, dict)
    };
    let (parser, dict) = compose(text);
    let mut c = lint_cfg(cfg);
    c.fill_with_curated();
    let mut group = LintGroup::new_curated(dict.clone(), dialect_of(cfg)).with_lint_config(c);
    let doc = Document::new(text, &parser, &dict);
    let mut lints = group.lint(&doc);
    if !ignored.is_empty() {
        let mut ig = IgnoredLints::new();
        for (t, l) in ignored {
            let (p2, d2) = compose(t);
            let d = Document::new(t, &p2, &d2);
            ig.ignore_lint(l, &d);
        }
        ig.remove_ignored(&mut lints, &doc);
    }
    lints
}

/// Reference diagnostics as sorted JSON (range + message).
pub fn ref_diag(text: &str, lang: &str, words: &BTreeSet<String>, cfg: usize) -> Vec<Value> {
    ref_diag_ignoring(text, lang, words, cfg, &[])
}

pub fn ref_diag_ignoring(text: &str, lang: &str, words: &BTreeSet<String>, cfg: usize, ignored: &[(String, Lint)]) -> Vec<Value> {
    let lints = ref_lints(text, lang, words, cfg, ignored);
    let chars = s2c(text);
    let mut v: Vec<Value> = lints
        .iter()
        .map(|l| {
            let (s, e) = (crate::c08::ref_position(&chars, l.span.start), crate::c08::ref_position(&chars, l.span.end));
            json!({"range": {"start": {"line": s.0, "character": s.1}, "end": {"line": e.0, "character": e.1}}, "message": l.message})
        })
        .collect();
    v.sort_by_key(|x| x.to_string());
    v
}

pub fn norm_diag(d: &Value) -> Vec<Value> {
    let mut v: Vec<Value> = d
        .as_array()
        .map(|a| a.iter().map(|x| json!({"range": x["range"], "message": x["message"]})).collect())
        .unwrap_or_default();
    v.sort_by_key(|x| x.to_string());
    v
}

pub struct Session {
    pub world: World,
    pub server: Server,
    pub client: Client,
}

impl Session {
    pub fn new(tag: &str) -> Result<Self, String> {
        let world = World::new(tag);
        // doc A exists on disk with content that differs from every buffer text
        std::fs::write(world.doc_path("a.md"), "Disk content with a wrod.\n").map_err(|e| e.to_string())?;
        let settings = world.settings_for(0);
        let mut server = Server::new(world.config(), settings);
        server.boot()?;
        Ok(Self { world, server, client: Client::new() })
    }

    pub fn uri(&self, d: usize) -> String {
        let doc = &self.client.docs[d];
        if doc.alt {
            // RFC 3986 §2.3: percent-encoding an unreserved character names the same resource
            let mut cs = doc.name.chars();
            let first = cs.next().unwrap();
            let alt = format!("%{:02X}{}", first as u32, cs.as_str());
            return self.world.uri(&alt);
        }
        self.world.uri(doc.name)
    }

    /// Server restart: a new server process on the same directories; the editor re-sends didOpen
    /// for every buffer it has open.
    pub fn restart(&mut self) -> Result<(), String> {
        let settings = self.world.settings_for(self.client.config);
        self.server = Server::new(self.world.config(), settings);
        self.server.boot()?;
        for i in self.client.ignored.iter_mut() {
            i.clear(); // the ignore list lives in the server's memory
        }
        for d in 0..self.client.docs.len() {
            if self.client.docs[d].open {
                let uri = self.uri(d);
                let doc = &self.client.docs[d];
                let req = Server::notification("textDocument/didOpen", json!({"textDocument": {"uri": uri, "languageId": doc.lang, "version": 1, "text": doc.text}}));
                self.server.enqueue("reopen", req);
                self.server.run_default()?;
            }
        }
        Ok(())
    }

    pub fn file_dict_path(&self, d: usize) -> std::path::PathBuf {
        let url = tower_lsp::lsp_types::Url::parse(&self.uri(d)).unwrap();
        self.world.file_dict_dir.join(crate::dictionary_io::file_dict_name(&url).unwrap())
    }

    /// Is the operation something a real editor could send in the current client state?
    pub fn applicable(&self, op: &Op) -> bool {
        if self.client.shut_down {
            return false;
        }
        match op {
            Op::Open(d, _) => !self.client.docs[*d].open,
            Op::Change(d, t) => self.client.docs[*d].open && self.client.docs[*d].text != TEXTS[*t],
            Op::Save(d) => self.client.docs[*d].open && self.client.docs[*d].has_file,
            Op::Close(d) => self.client.docs[*d].open,
            Op::AddUser(d, w) | Op::AddFile(d, w) => {
                let doc = &self.client.docs[*d];
                if !doc.open {
                    return false;
                }
                if matches!(op, Op::AddFile(..)) && !doc.has_file {
                    // file dictionaries are keyed by the file path; unsaved buffers have none that is stable
                }
                let mut words = self.client.user_words.clone();
                words.extend(self.client.file_words[*d].iter().cloned());
                // only words currently flagged in that document (what the quick-fix menu offers);
                // with spell checking switched off nothing is offered
                flagged_words(&doc.text, doc.lang, &words, self.client.config).contains(*w)
            }
            Op::Config(c) => self.client.config != *c,
            Op::Delete(d) => self.client.docs[*d].has_file && self.client.docs[*d].ever_opened,
            Op::CodeAction(d) => self.client.docs[*d].open,
            Op::Ignore(d) => {
                let doc = &self.client.docs[*d];
                doc.open && !ref_lints(&doc.text, doc.lang, &self.words_for(*d), self.client.config, &self.client.ignored[*d]).is_empty()
            }
            Op::Shutdown => self.client.docs.iter().any(|d| d.open),
        }
    }

    /// Update the client model and enqueue the corresponding LSP message.
    pub fn send(&mut self, op: &Op) {
        let label = format!("{op:?}");
        match op {
            Op::Open(d, t) => {
                let uri = self.uri(*d);
                let doc = &mut self.client.docs[*d];
                doc.open = true;
                doc.ever_opened = true;
                doc.lang = lang_for(*d, *t);
                doc.text = TEXTS[*t].to_string();
                let req = Server::notification("textDocument/didOpen", json!({"textDocument": {"uri": uri, "languageId": doc.lang, "version": 1, "text": doc.text}}));
                self.server.enqueue(&label, req);
            }
            Op::Change(d, t) => {
                let uri = self.uri(*d);
                let doc = &mut self.client.docs[*d];
                doc.text = TEXTS[*t].to_string();
                let req = Server::notification("textDocument/didChange", json!({"textDocument": {"uri": uri, "version": 2}, "contentChanges": [{"text": doc.text}]}));
                self.server.enqueue(&label, req);
            }
            Op::Save(d) => {
                let uri = self.uri(*d);
                let doc = &self.client.docs[*d];
                // the editor writes the buffer before it notifies
                let _ = std::fs::write(self.world.doc_path(doc.name), &doc.text);
                let req = Server::notification("textDocument/didSave", json!({"textDocument": {"uri": uri}}));
                self.server.enqueue(&label, req);
            }
            Op::Close(d) => {
                let uri = self.uri(*d);
                self.client.docs[*d].open = false;
                self.client.ignored[*d].clear();
                let req = Server::notification("textDocument/didClose", json!({"textDocument": {"uri": uri}}));
                self.server.enqueue(&label, req);
            }
            Op::AddUser(d, w) => {
                let uri = self.uri(*d);
                self.client.user_words.insert(w.to_string());
                let req = self.server.request("workspace/executeCommand", json!({"command": "HarperAddToUserDict", "arguments": [w, uri]}));
                self.server.enqueue(&label, req);
            }
            Op::AddFile(d, w) => {
                let uri = self.uri(*d);
                self.client.file_words[*d].insert(w.to_string());
                let req = self.server.request("workspace/executeCommand", json!({"command": "HarperAddToFileDict", "arguments": [w, uri]}));
                self.server.enqueue(&label, req);
            }
            Op::Config(c) => {
                self.client.config = *c;
                let settings = self.world.settings_for(*c);
                self.server.settings = settings.clone();
                let req = Server::notification("workspace/didChangeConfiguration", json!({"settings": settings}));
                self.server.enqueue(&label, req);
            }
            Op::CodeAction(d) => {
                let uri = self.uri(*d);
                let req = self.server.request("textDocument/codeAction", json!({"textDocument": {"uri": uri}, "range": {"start": {"line": 0, "character": 11}, "end": {"line": 0, "character": 12}}, "context": {"diagnostics": []}}));
                self.server.enqueue(&label, req);
            }
            Op::Ignore(d) => {
                let uri = self.uri(*d);
                let doc = self.client.docs[*d].clone();
                let lints = ref_lints(&doc.text, doc.lang, &self.words_for(*d), self.client.config, &self.client.ignored[*d]);
                let lint = lints[0].clone();
                // the editor copies the lint from the quick-fix command it was offered
                let req = self.server.request("workspace/executeCommand", json!({"command": "HarperIgnoreLint", "arguments": [uri, serde_json::to_value(&lint).unwrap()]}));
                self.client.ignored[*d].push((doc.text.clone(), lint));
                self.server.enqueue(&label, req);
            }
            Op::Shutdown => {
                self.client.shut_down = true;
                let req = self.server.request("shutdown", Value::Null);
                self.server.enqueue(&label, req);
            }
            Op::Delete(d) => {
                let uri = self.uri(*d);
                let doc = &mut self.client.docs[*d];
                let _ = std::fs::remove_file(self.world.doc_path(doc.name));
                doc.has_file = false;
                doc.open = false; // the editor drops buffers of deleted files
                self.client.ignored[*d].clear();
                let req = Server::notification("workspace/didChangeWatchedFiles", json!({"changes": [{"uri": uri, "type": 3}]}));
                self.server.enqueue(&label, req);
            }
        }
    }

    pub fn words_for(&self, d: usize) -> BTreeSet<String> {
        let mut w = self.client.user_words.clone();
        w.extend(self.client.file_words[d].iter().cloned());
        w
    }

    /// SPEC oracle at quiescence. Returns per-document problems.
    pub fn check_spec(&self) -> Vec<(usize, Value)> {
        let mut out = vec![];
        if self.client.shut_down {
            return out; // only liveness is checked once the client asked the server to shut down
        }
        for d in 0..self.client.docs.len() {
            let doc = &self.client.docs[d];
            let got = self.server.last_diagnostics(&self.uri(d)).map(|v| norm_diag(&v));
            if doc.open {
                let want = ref_diag_ignoring(&doc.text, doc.lang, &self.words_for(d), self.client.config, &self.client.ignored[d]);
                if got.as_ref() != Some(&want) {
                    out.push((d, json!({"document": doc.name, "client_text": doc.text, "published": got, "expected": want})));
                }
            } else if doc.ever_opened {
                if got.as_ref().map(|g| !g.is_empty()).unwrap_or(false) {
                    out.push((d, json!({"document": doc.name, "closed": true, "published": got, "expected": []})));
                }
            }
        }
        out
    }
}

impl Drop for Session {
    fn drop(&mut self) {
        self.world.cleanup();
    }
}

pub fn ops() -> Vec<Op> {
    vec![
        Op::Open(0, 0),
        Op::Open(1, 1),
        Op::Open(1, 6),
        Op::Open(1, 8),
        Op::Open(1, 9),
        Op::Change(0, 1),
        Op::Change(0, 2),
        Op::Change(1, 0),
        Op::Save(0),
        Op::Close(0),
        Op::Close(1),
        Op::AddUser(0, "tset"),
        Op::AddFile(0, "tset"),
        Op::AddUser(1, "teh"),
        Op::Config(1),
        Op::Config(0),
        Op::Config(2),
        Op::Config(3),
        Op::Delete(0),
        Op::CodeAction(0),
        Op::Shutdown,
        Op::Ignore(0),
        Op::Ignore(1),
        Op::Open(1, 10),
        Op::Change(1, 11),
    ]
}

fn op_index(o: &Op) -> Option<usize> {
    ops().iter().position(|x| x == o)
}

fn describe(prefix: &[Op], batch: &[Op], choices: &[usize], trace: &[String]) -> Value {
    json!({"engine":"E3","history_ops": prefix.iter().map(op_index).collect::<Vec<_>>(), "batch_ops": batch.iter().map(op_index).collect::<Vec<_>>(), "history": prefix.iter().map(|o| format!("{o:?}")).collect::<Vec<_>>(), "concurrent_batch": batch.iter().map(|o| format!("{o:?}")).collect::<Vec<_>>(), "schedule_choices": choices, "events": trace})
}

/// Execute: sequential prefix (each to quiescence, FIFO), then the batch sent back-to-back under
/// `choices`. Returns (session, widths, batch trace) or a machinery error.
pub fn execute(prefix: &[Op], batch: &[Op], choices: &[usize]) -> Result<(Session, Vec<usize>, Vec<String>, bool), String> {
    let mut s = Session::new("c09")?;
    for op in prefix {
        if !s.applicable(op) {
            return Ok((s, vec![], vec![], false));
        }
        s.send(op);
        s.server.run_default()?;
    }
    for op in batch {
        if !s.applicable(op) {
            return Ok((s, vec![], vec![], false));
        }
        s.send(op);
    }
    let t0 = s.server.trace.len();
    s.server.admit_first = true;
    let widths = s.server.run_choices(choices)?;
    let trace = s.server.trace[t0..].to_vec();
    Ok((s, widths, trace, true))
}

/// What the dictionaries on disk held after each step of a batch, and when each handler's
/// configuration answer was delivered.
pub struct Timeline {
    /// per step: (user words, file words per document)
    pub dicts: Vec<(BTreeSet<String>, Vec<BTreeSet<String>>)>,
    /// per batch operation index: step at which its workspace/configuration answer was delivered
    pub answer_step: Vec<Option<usize>>,
    /// number of enabled events at each choice point
    pub widths: Vec<usize>,
}

fn read_words(p: &std::path::Path) -> BTreeSet<String> {
    std::fs::read_to_string(p).map(|t| t.lines().map(|l| l.to_string()).collect()).unwrap_or_default()
}

/// Like `execute`, but steps the batch one event at a time and records the timeline.
pub fn execute_observed(prefix: &[Op], batch: &[Op], choices: &[usize]) -> Result<(Session, Timeline, bool), String> {
    let mut s = Session::new("c09")?;
    for op in prefix {
        if !s.applicable(op) {
            return Ok((s, Timeline { dicts: vec![], answer_step: vec![], widths: vec![] }, false));
        }
        s.send(op);
        s.server.run_default()?;
    }
    let first_task = s.server.tasks.len();
    for op in batch {
        if !s.applicable(op) {
            return Ok((s, Timeline { dicts: vec![], answer_step: vec![], widths: vec![] }, false));
        }
        s.send(op);
    }
    s.server.admit_first = true;
    let answered0 = s.server.answered.len();
    let mut tl = Timeline { dicts: vec![], answer_step: vec![None; batch.len()], widths: vec![] };
    let snap = |s: &Session| (read_words(&s.world.user_dict), (0..s.client.docs.len()).map(|d| read_words(&s.file_dict_path(d))).collect::<Vec<_>>());
    tl.dicts.push(snap(&s));
    let mut k = 0;
    while !s.server.quiescent() {
        let evs = s.server.enabled();
        if evs.is_empty() {
            return Err("deadlock".into());
        }
        let c = choices.get(k).copied().unwrap_or(0);
        if c >= evs.len() {
            return Err(format!("replay divergence at choice {k}"));
        }
        tl.widths.push(evs.len());
        let ev = evs[c].clone();
        s.server.step(&ev)?;
        tl.dicts.push(snap(&s));
        k += 1;
        if let Event::Answer(_) = ev {
            if let Some((_, Some(t), _)) = s.server.answered.last() {
                if *t >= first_task && *t - first_task < batch.len() && tl.answer_step[*t - first_task].is_none() {
                    tl.answer_step[*t - first_task] = Some(tl.dicts.len() - 1);
                }
            }
        }
        if k > 20000 {
            return Err("livelock".into());
        }
    }
    let _ = answered0;
    Ok((s, tl, true))
}

fn touches(op: &Op, d: usize) -> bool {
    match op {
        Op::Open(x, _) | Op::Change(x, _) | Op::Save(x) | Op::AddFile(x, _) | Op::Ignore(x) => *x == d,
        Op::AddUser(..) | Op::Config(..) => true,
        _ => false,
    }
}

/// F16 as-is clause, narrow form. On the current code every handler that (re)lints a document
/// loads the dictionaries AFTER its own configuration answer arrived and installs text + dictionary
/// under the document lock; handlers that are in flight together may take that lock in any order.
/// So the final publication for document `d` may be that of ANY text the batch (or the state before
/// it) gave the document, under ANY dictionary state that existed on disk at or after the earliest
/// configuration answer of a handler touching `d` — but not an older one; and a closed document can
/// only come back through a didOpen of the batch.
fn f16_explains_narrow(pre: &Client, post: &Client, batch: &[Op], d: usize, published: &Option<Vec<Value>>, tl: &Timeline) -> bool {
    let Some(p) = published else { return false };
    let closing = batch.iter().any(|o| matches!(o, Op::Close(x) | Op::Delete(x) if *x == d));
    let opening = batch.iter().any(|o| matches!(o, Op::Open(x, _) if *x == d));
    if p.is_empty() && (closing || opening) {
        return true; // an overtaken close, or a not-yet-open state
    }
    if !p.is_empty() && !post.docs[d].open && !opening {
        return false; // only a didOpen carries the language id that can re-create a closed document
    }
    let t_min = batch.iter().enumerate().filter(|(_, o)| touches(o, d)).filter_map(|(i, _)| tl.answer_step.get(i).cloned().flatten()).min();
    let Some(t_min) = t_min else { return false };
    let mut texts: Vec<String> = vec![pre.docs[d].text.clone(), post.docs[d].text.clone()];
    for op in batch {
        match op {
            Op::Open(x, t) | Op::Change(x, t) if *x == d => texts.push(TEXTS[*t].to_string()),
            _ => {}
        }
    }
    let mut wordsets: Vec<BTreeSet<String>> = vec![];
    for (u, f) in tl.dicts.iter().skip(t_min) {
        let mut w = u.clone();
        w.extend(f[d].iter().cloned());
        if !wordsets.contains(&w) {
            wordsets.push(w);
        }
    }
    let ignored_options: [&[(String, Lint)]; 2] = [&pre.ignored[d], &post.ignored[d]];
    // The configuration before the batch can survive only through a handler that BUILDS a linter
    // from its own earlier copy of the configuration: a didOpen of d, or a dictionary change that
    // makes update_document rebuild d's linter. A batch of edits and configuration changes alone
    // always ends with did_change_configuration rebuilding every linter.
    let builds_linter = batch.iter().any(|o| matches!(o, Op::Open(x, _) if *x == d) || matches!(o, Op::AddUser(..) | Op::AddFile(..)));
    let cfgs: Vec<usize> = if builds_linter { vec![pre.config, post.config] } else { vec![post.config] };
    for t in &texts {
        for w in &wordsets {
            for cfg in cfgs.iter().copied() {
                for ig in ignored_options {
                    for lang in [pre.docs[d].lang, post.docs[d].lang] {
                        if &ref_diag_ignoring(t, lang, w, cfg, ig) == p {
                            return true;
                        }
                    }
                }
            }
        }
    }
    false
}

/// F16 as-is clause: with overlapping handlers and a non-FIFO schedule the final publication may be
/// that of any text the batch (or the state before it) gave the document, under any dictionary /
/// configuration state reached during the batch.
fn f16_explains(pre: &Client, post: &Client, batch: &[Op], d: usize, published: &Option<Vec<Value>>) -> bool {
    let Some(p) = published else { return false };
    let mut texts: Vec<String> = vec![pre.docs[d].text.clone(), post.docs[d].text.clone()];
    for op in batch {
        match op {
            Op::Open(x, t) | Op::Change(x, t) if *x == d => texts.push(TEXTS[*t].to_string()),
            _ => {}
        }
    }
    if p.is_empty() {
        return true; // an overtaken close / delete / not-yet-open state
    }
    let mut wordsets: Vec<BTreeSet<String>> = vec![];
    for c in [pre, post] {
        let mut w = c.user_words.clone();
        wordsets.push(w.clone());
        w.extend(c.file_words[d].iter().cloned());
        wordsets.push(w);
    }
    // intermediate dictionary states: the pre-batch words plus any subset of the words the batch adds
    let added: Vec<String> = batch.iter().filter_map(|o| match o { Op::AddUser(_, w) => Some(w.to_string()), Op::AddFile(x, w) if *x == d => Some(w.to_string()), _ => None }).collect();
    let base = wordsets[1].clone();
    for mask in 0..(1u32 << added.len().min(4)) {
        let mut w = base.clone();
        for (i, a) in added.iter().enumerate().take(4) {
            if mask & (1 << i) != 0 {
                w.insert(a.clone());
            }
        }
        wordsets.push(w);
    }
    for t in &texts {
        for w in &wordsets {
            for cfg in [pre.config, post.config] {
                for lang in [pre.docs[d].lang, post.docs[d].lang] {
                    if &ref_diag(t, lang, w, cfg) == p {
                        return true;
                    }
                }
            }
        }
    }
    false
}

pub fn run(tier: Tier) -> i32 {
    crate::e3::sandbox_env();
    let mut report = Report::new("C09", tier, "model_checking");
    let all = ops();

    // ---------------- sequential histories: BFS over applicable operation sequences -------------
    let depth = tier.pick(3, 4);
    let seqs = crate::e2::sequences(all.len(), depth);
    let n = seqs.len() as u64;
    let res = crate::pool::par_chunks(n, 24, ncpu(), |s, e| {
        let mut viols = vec![];
        let mut ran = 0u64;
        let mut steps = 0u64;
        let mut errs = vec![];
        for i in s..e {
            let seq: Vec<Op> = seqs[i as usize].iter().map(|k| all[*k].clone()).collect();
            if seq.is_empty() {
                continue;
            }
            match catch(|| execute(&seq, &[], &[])) {
                Ok(Ok((sess, _, _, true))) => {
                    ran += 1;
                    steps += sess.server.trace.len() as u64;
                    for (_d, detail) in sess.check_spec() {
                        let last = format!("{:?}", seq.last().unwrap());
                        let kind: String = last.chars().take_while(|c| c.is_alphabetic()).collect();
                        if viols.len() < 10 {
                            viols.push(Violation { sig: format!("sequential:stale-or-wrong-after-{kind}"), case: describe(&seq, &[], &[], &[]), detail });
                        }
                    }
                }
                Ok(Ok(_)) => {}
                Ok(Err(e)) if e.starts_with("deadlock") => viols.push(Violation { sig: "server-deadlock:sequential".into(), case: describe(&seq, &[], &[], &[]), detail: json!({"error": e}) }),
                Ok(Err(e)) => errs.push(format!("{seq:?}: {e}")),
                Err(p) => viols.push(Violation { sig: format!("server-panic:{}", msg_class(&p.msg)), case: describe(&seq, &[], &[], &[]), detail: json!({"at": format!("{}:{}", short_file(&p.file), p.line), "msg": p.msg}) }),
            }
        }
        (ran, steps, viols, errs)
    });
    let mut seq_ran = 0;
    let mut transitions = 0;
    for (r, st, vs, errs) in res {
        seq_ran += r;
        transitions += st;
        for v in vs {
            report.violation(v);
        }
        for e in errs.into_iter().take(3) {
            report.machinery(e);
        }
    }
    report.set("sequential_histories_executed", seq_ran);

    // ---------------- concurrent batches: deviation-bounded schedule exploration ----------------
    let prefixes: Vec<Vec<Op>> = tier.pick(
        vec![vec![Op::Open(0, 0)], vec![Op::Open(0, 0), Op::Open(1, 1)]],
        vec![vec![], vec![Op::Open(0, 0)], vec![Op::Open(1, 1)], vec![Op::Open(0, 0), Op::Open(1, 1)], vec![Op::Open(0, 0), Op::Config(1)]],
    );
    let bsize = 2usize;
    let bound = tier.pick(1usize, 2usize);
    let mut jobs: Vec<(Vec<Op>, Vec<Op>, usize)> = vec![];
    for p in &prefixes {
        for a in &all {
            for b in &all {
                jobs.push((p.clone(), vec![a.clone(), b.clone()], bound));
            }
        }
    }
    // the pairs that touch one document twice get one more deviation
    let hot = [Op::Change(0, 1), Op::Change(0, 2), Op::AddUser(0, "tset"), Op::AddFile(0, "tset"), Op::Config(1), Op::Close(0), Op::Save(0)];
    for a in &hot {
        for b in &hot {
            jobs.push((vec![Op::Open(0, 0)], vec![a.clone(), b.clone()], bound + 1));
        }
    }
    // triples that mix a writer of the configuration (any document update pulls it), a reader that
    // holds it while waiting for the document table, and a holder of the document table
    let tri = [Op::Change(0, 1), Op::CodeAction(0), Op::Shutdown, Op::Config(1), Op::Close(0)];
    for a in &tri {
        for b in &tri {
            for c in &tri {
                if a != b && b != c && a != c {
                    jobs.push((vec![Op::Open(0, 0)], vec![a.clone(), b.clone(), c.clone()], bound));
                }
            }
        }
    }
    jobs.push((vec![], vec![Op::Open(0, 0), Op::CodeAction(0), Op::Shutdown], bound + 1));
    jobs.push((vec![], vec![Op::Open(0, 0), Op::Change(0, 1)], bound + 1));
    jobs.push((vec![], vec![Op::Open(0, 0), Op::Close(0)], bound + 1));
    if tier == Tier::Thorough {
        // triples on the open document
        let core = [Op::Change(0, 1), Op::Change(0, 2), Op::AddUser(0, "tset"), Op::Config(1), Op::Close(0), Op::Save(0)];
        for a in &core {
            for b in &core {
                for c in &core {
                    jobs.push((vec![Op::Open(0, 0)], vec![a.clone(), b.clone(), c.clone()], 1));
                }
            }
        }
    }
    let _ = bsize;
    let nj = jobs.len() as u64;
    let res = crate::pool::par_chunks(nj, 2, ncpu(), |s, e| {
        let mut viols: Vec<Violation> = vec![];
        let mut execs = 0u64;
        let mut steps = 0u64;
        let mut batches = 0u64;
        let mut overlapped = 0u64;
        let mut outcomes: BTreeSet<u64> = BTreeSet::new();
        let mut errs: Vec<String> = vec![];
        let mut divergences = 0u64;
        let mut retried = 0u64;
        let mut f16 = 0u64;
        let mut unconfirmed = 0u64;
        for j in s..e {
            let (prefix, batch, bound) = &jobs[j as usize];
            let bound = *bound;
            // stack of choice prefixes to explore (deviation-bounded DFS, re-execution from scratch)
            let mut stack: Vec<Vec<usize>> = vec![vec![]];
            let mut first = true;
            while let Some(choices) = stack.pop() {
                // The server iterates over its document table (a `HashMap` with a per-instance random
                // hasher) when it refreshes every open document, so with two documents open the order
                // of its I/O — and with it the shape of the choice tree — is a coin the harness cannot
                // own without a source hook. A schedule recorded under one order is re-executed until
                // the same order comes up again (both orders are explored over the run; what is left
                // after 12 attempts is counted as a divergence and not judged).
                let mut r = catch(|| execute_observed(prefix, batch, &choices));
                for _ in 0..12 {
                    if !matches!(r, Ok(Err(ref e)) if e.starts_with("replay divergence")) {
                        break;
                    }
                    retried += 1;
                    r = catch(|| execute_observed(prefix, batch, &choices));
                }
                let (sess, tl, ok) = match r {
                    Ok(Ok(x)) => x,
                    Ok(Err(e)) => {
                        if e.starts_with("replay divergence") {
                            divergences += 1;
                            if std::env::var("HV_DEBUG").is_ok() {
                                eprintln!("DIVERGENCE {prefix:?} {batch:?} {choices:?}: {e}");
                            }
                        } else if e.starts_with("deadlock") {
                            // confirm by replay, then report: the server never reaches quiescence
                            let again = catch(|| execute(prefix, batch, &choices));
                            if matches!(again, Ok(Err(ref e2)) if e2.starts_with("deadlock")) {
                                if viols.iter().filter(|v| v.sig.starts_with("server-deadlock")).count() < 3 {
                                    viols.push(Violation { sig: "server-deadlock:handlers-wait-for-each-other".into(), case: describe(prefix, batch, &choices, &[]), detail: json!({"error": e}) });
                                } else {
                                    viols.push(Violation { sig: "server-deadlock:handlers-wait-for-each-other".into(), case: json!({"pad":"further case ..........................................................................................................................................................................................................................."}), detail: json!({}) });
                                }
                            }
                        } else {
                            errs.push(format!("{prefix:?} {batch:?} {choices:?}: {e}"));
                        }
                        continue;
                    }
                    Err(p) => {
                        viols.push(Violation { sig: format!("server-panic:{}", msg_class(&p.msg)), case: describe(prefix, batch, &choices, &[]), detail: json!({"at": format!("{}:{}", short_file(&p.file), p.line), "msg": p.msg}) });
                        continue;
                    }
                };
                if !ok {
                    break; // batch not applicable in this client state
                }
                let trace: Vec<String> = sess.server.trace[sess.server.trace.len() - (tl.dicts.len() - 1)..].to_vec();
                let widths: Vec<usize> = tl.widths.clone();
                if first {
                    batches += 1;
                    first = false;
                }
                execs += 1;
                steps += trace.len() as u64;
                let deviations = choices.iter().filter(|c| **c != 0).count();
                // did two handlers overlap? (a poll of one task between polls of another)
                let polls: Vec<&String> = trace.iter().filter(|t| t.starts_with("poll:")).collect();
                let mut seen_done: Vec<&String> = vec![];
                let mut overlap = false;
                for (i, p) in polls.iter().enumerate() {
                    if i > 0 && polls[i - 1] != *p && seen_done.contains(p) {
                        overlap = true;
                    }
                    if !seen_done.contains(p) {
                        seen_done.push(p);
                    }
                }
                if overlap {
                    overlapped += 1;
                }
                let problems = sess.check_spec();
                outcomes.insert(h64(&(j, problems.len(), sess.server.log.len())));
                for (d, detail) in problems {
                    // as-is clause F16 applies whenever handlers overlapped (messages in flight together)
                    let published = sess.server.last_diagnostics(&sess.uri(d)).map(|v| norm_diag(&v));
                    let mut pre = Client::new();
                    for op in prefix {
                        model_only(&mut pre, op);
                    }
                    if overlap && f16_explains_narrow(&pre, &sess.client, batch, d, &published, &tl) {
                        f16 += 1;
                        if !viols.iter().any(|v| v.sig.starts_with("F16")) {
                            viols.push(Violation { sig: "F16-overtaking-handlers".into(), case: describe(prefix, batch, &choices, &trace), detail });
                        }
                        continue;
                    }
                    let sig = if deviations == 0 { "batch-fifo:stale-or-wrong" } else { "batch-deviating:unexplained-final-state" };
                    if viols.iter().filter(|v| v.sig == sig).count() < 4 {
                        // replay the recorded schedule: it must give the same events and the same verdict
                        let mut confirmed = false;
                        for _ in 0..3 {
                            if let Ok(Ok((s2, _, t2, true))) = catch(|| execute(prefix, batch, &choices)) {
                                if t2 == trace && s2.check_spec().iter().any(|(d2, _)| *d2 == d) {
                                    confirmed = true;
                                    break;
                                }
                            }
                        }
                        if confirmed {
                            viols.push(Violation { sig: sig.into(), case: describe(prefix, batch, &choices, &trace), detail });
                        } else {
                            unconfirmed += 1;
                        }
                    }
                }
                // children: deviate at every later choice point while under the bound
                if deviations < bound {
                    for i in choices.len()..widths.len() {
                        for alt in 1..widths[i] {
                            let mut c = choices.clone();
                            c.resize(i, 0);
                            c.push(alt);
                            stack.push(c);
                        }
                    }
                }
            }
        }
        (execs, steps, batches, overlapped, outcomes, viols, errs, divergences, f16, unconfirmed, retried)
    });
    let mut execs = 0;
    let mut batches = 0;
    let mut overlapped = 0;
    let mut divergences = 0;
    let mut f16 = 0;
    let mut unconfirmed = 0;
    let mut retried = 0;
    for (x, st, b, o, oc, vs, errs, dv, f, uc, rt) in res {
        retried += rt;
        unconfirmed += uc;
        execs += x;
        transitions += st;
        batches += b;
        overlapped += o;
        divergences += dv;
        f16 += f;
        report.outcomes.extend(oc);
        for v in vs {
            report.violation(v);
        }
        for e in errs.into_iter().take(2) {
            report.machinery(e);
        }
    }
    report.set("concurrent_batches", batches);
    report.set("batch_schedules_executed", execs);
    report.set("schedules_with_overlapping_handlers", overlapped);
    report.set("deviation_bound", bound as u64);
    report.set("replay_divergences", divergences);
    report.set("re-executions_until_the_document_table_order_matched", retried);
    report.set("exhaustive", divergences == 0);
    report.set("failures_not_reproduced_on_replay(not reported)", unconfirmed);
    report.set("executions_explained_only_by_F16", f16);
    report.set("states", seq_ran + execs);
    report.set("transitions", transitions);
    report.set("traces_validated_against_impl", seq_ran + execs);
    report.sample(describe(&[Op::Open(0, 0)], &[Op::Change(0, 1), Op::AddUser(0, "tset")], &[0, 0, 2], &["admit".into(), "admit".into(), "answer:#3".into()]));
    report.assume("explored object is the real Backend behind the real tower-lsp router; schedules: ready tasks run in wake order (as FuturesUnordered does); only external events (client answers, I/O completions, admission) are reordered, each by a bounded number of deviations from first-come-first-served");
    report.assume("file I/O confined to one gated blocking thread so that completions are explicit events; process-death and power-loss are not modelled here (C07)");
    report.finish()
}

/// Apply an operation to the client model only (no server).
pub fn model_only(c: &mut Client, op: &Op) {
    match op {
        Op::Open(d, t) => {
            c.docs[*d].open = true;
            c.docs[*d].ever_opened = true;
            c.docs[*d].lang = lang_for(*d, *t);
            c.docs[*d].text = TEXTS[*t].to_string();
        }
        Op::Change(d, t) => c.docs[*d].text = TEXTS[*t].to_string(),
        Op::Save(_) => {}
        Op::Close(d) => {
            c.docs[*d].open = false;
            c.ignored[*d].clear();
        }
        Op::AddUser(_, w) => {
            c.user_words.insert(w.to_string());
        }
        Op::AddFile(d, w) => {
            c.file_words[*d].insert(w.to_string());
        }
        Op::Config(k) => c.config = *k,
        Op::Delete(d) => {
            c.docs[*d].has_file = false;
            c.docs[*d].open = false;
            c.ignored[*d].clear();
        }
        Op::CodeAction(_) => {}
        Op::Ignore(d) => {
            let doc = c.docs[*d].clone();
            let mut w = c.user_words.clone();
            w.extend(c.file_words[*d].iter().cloned());
            if let Some(l) = ref_lints(&doc.text, doc.lang, &w, c.config, &c.ignored[*d]).first() {
                c.ignored[*d].push((doc.text.clone(), l.clone()));
            }
        }
        Op::Shutdown => c.shut_down = true,
    }
}

/// Replay one recorded (history, batch, schedule) without the explorer.
pub fn replay(case: &Value) -> Vec<(String, Value)> {
    crate::e3::sandbox_env();
    let all = ops();
    let get = |k: &str| -> Option<Vec<Op>> {
        case[k].as_array()?.iter().map(|x| x.as_u64().and_then(|i| all.get(i as usize).cloned())).collect()
    };
    let (Some(prefix), Some(batch)) = (get("history_ops"), get("batch_ops")) else {
        return vec![("bad-replay-file".into(), json!({}))];
    };
    let choices: Vec<usize> = case["schedule_choices"].as_array().map(|a| a.iter().filter_map(|x| x.as_u64().map(|v| v as usize)).collect()).unwrap_or_default();
    match catch(|| execute(&prefix, &batch, &choices)) {
        Ok(Ok((sess, _, trace, true))) => sess.check_spec().into_iter().map(|(_, d)| ("final-diagnostics-differ-from-reference".to_string(), json!({"problem": d, "events": trace}))).collect(),
        Ok(Ok(_)) => vec![("history-not-applicable".into(), json!({}))],
        Ok(Err(e)) => vec![(if e.starts_with("deadlock") { "server-deadlock".to_string() } else { format!("machinery:{e}") }, json!({"error": e}))],
        Err(p) => vec![(format!("server-panic:{}", msg_class(&p.msg)), json!({"msg": p.msg}))],
    }
}
