//! Engine E2: histories of operations on long-lived objects, compared step by step with boring
//! reference models. C16 (harper_wasm::Linter) and C05 (LintGroup reuse).

use crate::pool::par_chunks;
use crate::util::*;
use harper_core::linting::{Lint, LintGroup, LintGroupConfig, Linter as _, Suggestion};
use harper_core::parsers::{Markdown, Parser, PlainEnglish};
use harper_core::{
    Dialect, Dictionary, Document, FstDictionary, MergedDictionary, MutableDictionary,
    WordMetadata, remove_overlaps,
};
use harper_wasm::{Language, Linter};
use serde_json::{Value, json};
use std::collections::{BTreeMap, BTreeSet, HashMap};
use std::sync::Arc;

pub type LKey = (usize, usize, String, String, String, u8);
pub fn lkey(l: &Lint) -> LKey {
    (
        l.span.start,
        l.span.end,
        format!("{:?}", l.lint_kind),
        l.message.clone(),
        l.suggestions.iter().map(|s| s.to_string()).collect::<Vec<_>>().join("|"),
        l.priority,
    )
}

/// Enumerate all operation sequences of length <= depth over `nops` operations (shortlex).
pub fn sequences(nops: usize, depth: usize) -> Vec<Vec<usize>> {
    let mut all: Vec<Vec<usize>> = vec![vec![]];
    let mut frontier: Vec<Vec<usize>> = vec![vec![]];
    for _ in 0..depth {
        let mut next = vec![];
        for s in &frontier {
            for o in 0..nops {
                let mut t = s.clone();
                t.push(o);
                next.push(t);
            }
        }
        all.extend(next.iter().cloned());
        frontier = next;
    }
    all
}

/// Reference dictionary: curated + one single-word child per user word (no shared word map, so
/// entries that differ only in case cannot collide).
pub fn ref_dict(words: &BTreeSet<String>) -> Arc<MergedDictionary> {
    let mut m = MergedDictionary::new();
    m.add_dictionary(FstDictionary::curated());
    for w in words {
        let mut d = MutableDictionary::new();
        d.append_word_str(w, WordMetadata::default());
        m.add_dictionary(Arc::new(d));
    }
    Arc::new(m)
}

fn has_case_collision(words: &BTreeSet<String>) -> Option<String> {
    let mut seen: BTreeMap<String, usize> = BTreeMap::new();
    for w in words {
        *seen.entry(w.to_lowercase()).or_insert(0) += 1;
    }
    seen.into_iter().find(|(_, n)| *n > 1).map(|(k, _)| k)
}

// =============================================================================================
// C16

#[derive(Clone, Debug)]
pub enum WOp {
    Lint(usize, bool), // text index, markdown?
    Ignore(usize),
    /// ignore a lint of the lint call BEFORE the last one (a second view acting on older results)
    IgnorePrev(usize),
    Apply(usize, usize),
    Import(usize),
    Migrate,          // export words/ignored/config -> new Linter -> import
    ReimportIgnored,  // export -> clear -> import
    SnapshotIgnored,  // keep the current export aside (e.g. another tab's copy)
    ImportSnapshot,   // import that older snapshot into the current state: must MERGE, not replace
    ClearIgnored,
    SetConfig(usize),
}

pub const W_TEXTS: &[&str] = &[
    "He is better *then* me",
    "Ünï 😀 teh tset, an apple.",
    "She is an an doctor.",
    "He said \"hello and went teh way.",
    "tset Tset teh paris",
    "i am going to to the colour store",
];
pub const W_WORDS: &[&[&str]] = &[&["tset", "paris"], &["Tset", "teh"], &[]];
pub const W_CFGS: &[&str] = &[
    r#"{"SpellCheck": false}"#,
    r#"{"SpellCheck": true, "AnA": false, "NoSuchRule": true}"#,
    r#"{"RepeatedWords": false, "SpellCheck": null}"#,
];

pub fn wops() -> Vec<WOp> {
    vec![
        WOp::Lint(0, false),
        WOp::Lint(0, true),
        WOp::Lint(1, false),
        WOp::Lint(2, false),
        WOp::Lint(3, true),
        WOp::Lint(4, false),
        WOp::Lint(5, false),
        WOp::Ignore(0),
        WOp::Ignore(1),
        WOp::IgnorePrev(0),
        WOp::Apply(0, 0),
        WOp::Apply(1, 1),
        WOp::Import(0),
        WOp::Import(1),
        WOp::Import(2),
        WOp::SnapshotIgnored,
        WOp::ImportSnapshot,
        WOp::ClearIgnored,
        WOp::Migrate,
        WOp::ReimportIgnored,
        WOp::SetConfig(0),
        WOp::SetConfig(1),
        WOp::SetConfig(2),
    ]
}

fn lang(md: bool) -> Language {
    if md { Language::Markdown } else { Language::Plain }
}

#[derive(Clone)]
struct IgnoredEntry {
    text: String,
    md: bool,
    lint: Lint,
    flagged: String,
}

struct RefCache {
    groups: HashMap<String, LintGroup>,
    results: HashMap<String, Vec<Lint>>,
}

fn ref_lint(cache: &mut RefCache, dialect: Dialect, words: &BTreeSet<String>, cfg: &BTreeMap<String, Option<bool>>, text: &str, md: bool) -> Vec<Lint> {
    let gk = format!("{dialect:?}|{words:?}|{cfg:?}");
    let rk = format!("{gk}|{md}|{text}");
    if let Some(r) = cache.results.get(&rk) {
        return r.clone();
    }
    let dict = ref_dict(words);
    if !cache.groups.contains_key(&gk) {
        let mut g = LintGroup::new_curated(dict.clone(), dialect);
        // explicit user choices win over curated defaults; null/unknown leave defaults
        for (k, v) in cfg {
            if let Some(v) = v {
                g.config.set_rule_enabled(k, *v);
            }
        }
        if cache.groups.len() > 64 {
            cache.groups.clear();
        }
        cache.groups.insert(gk.clone(), g);
    }
    // a fresh pipeline per query: defeat the group's chunk cache with a nonce
    let g = cache.groups.get_mut(&gk).unwrap();
    let parser: Box<dyn Parser> = if md { Box::new(Markdown::default()) } else { Box::new(PlainEnglish) };
    let doc = Document::new(text, &parser, &dict);
    let mut nonce = cache.results.len() as u64 * 2 + 1;
    let mut lints = crate::c12::lint_uncached(g, &doc, &mut nonce);
    g.config.unset_rule_enabled(format!("__verif_nonce_{nonce}"));
    remove_overlaps(&mut lints);
    cache.results.insert(rk, lints.clone());
    lints
}

fn inner_of(l: &harper_wasm::Lint) -> Option<(Lint, String)> {
    let v: Value = serde_json::from_str(&l.to_json()).ok()?;
    let inner: Lint = serde_json::from_value(v["inner"].clone()).ok()?;
    Some((inner, v["problem_text"].as_str().unwrap_or("").to_string()))
}

fn migrate(old: &mut Linter, dialect: harper_wasm::Dialect) -> Result<Linter, String> {
    let mut n = Linter::new(dialect);
    n.import_words(old.export_words());
    n.import_ignored_lints(old.export_ignored_lints())?;
    n.set_lint_config_from_json(old.get_lint_config_as_json())?;
    Ok(n)
}

/// Execute one history on the real object, checking every step. Returns first problem.
pub fn run_w_history(ops: &[WOp], seq: &[usize], cache: &mut RefCache) -> (Option<(String, Value)>, u64, bool) {
    run_w_history_in(ops, seq, cache, 0)
}

pub const W_DIALECTS: &[&str] = &["American", "British", "Australian", "Canadian"];

pub fn run_w_history_in(ops: &[WOp], seq: &[usize], cache: &mut RefCache, di: usize) -> (Option<(String, Value)>, u64, bool) {
    let (wd, dialect) = match di {
        1 => (harper_wasm::Dialect::British, Dialect::British),
        2 => (harper_wasm::Dialect::Australian, Dialect::Australian),
        3 => (harper_wasm::Dialect::Canadian, Dialect::Canadian),
        _ => (harper_wasm::Dialect::American, Dialect::American),
    };
    let mut real = Linter::new(wd);
    let mut shadow = Linter::new(wd); // same history without the export/import operations
    let mut words: BTreeSet<String> = BTreeSet::new();
    let mut cfg: BTreeMap<String, Option<bool>> = BTreeMap::new();
    let mut ignored: Vec<IgnoredEntry> = vec![];
    let mut last: Option<(String, bool, Vec<harper_wasm::Lint>)> = None;
    let mut prev: Option<(String, bool, Vec<harper_wasm::Lint>)> = None;
    let mut snapshot: Option<String> = None;
    let mut snapshot_model: Vec<IgnoredEntry> = vec![];
    let mut ignored_js: Vec<(String, String)> = vec![];
    let mut snapshot_js: Vec<(String, String)> = vec![];
    let mut steps = 0u64;
    let mut interesting = false;
    for (si, oi) in seq.iter().enumerate() {
        steps += 1;
        match &ops[*oi] {
            WOp::Lint(ti, md) => {
                let text = W_TEXTS[*ti].to_string();
                let got = real.lint(text.clone(), lang(*md));
                let sh = shadow.lint(text.clone(), lang(*md));
                let chars = s2c(&text);
                let mut inners: Vec<Lint> = vec![];
                for l in &got {
                    let Some((inner, problem)) = inner_of(l) else {
                        return (Some(("lint-json-unreadable".into(), json!({"step": si}))), steps, interesting);
                    };
                    // R1
                    if inner.span.start > inner.span.end || inner.span.end > chars.len() {
                        return (Some(("lint-outside-text".into(), json!({"step": si, "lint": crate::sweep::lint_json(&inner)}))), steps, interesting);
                    }
                    let flagged: String = chars[inner.span.start..inner.span.end].iter().collect();
                    if problem != flagged || l.get_problem_text() != flagged {
                        return (Some(("problem-text-differs-from-span".into(), json!({"step": si, "problem_text": problem, "flagged": flagged}))), steps, interesting);
                    }
                    let sp = l.span();
                    if (sp.start, sp.end) != (inner.span.start, inner.span.end) || l.message() != inner.message || l.suggestion_count() != inner.suggestions.len() {
                        return (Some(("accessors-disagree-with-json".into(), json!({"step": si}))), steps, interesting);
                    }
                    // R5 JSON round trip
                    let js = l.to_json();
                    match harper_wasm::Lint::from_json(js.clone()) {
                        Ok(back) if back.to_json() == js => {}
                        Ok(back) => return (Some(("lint-json-round-trip-changed".into(), json!({"step": si, "before": js, "after": back.to_json()}))), steps, interesting),
                        Err(e) => return (Some(("lint-json-round-trip-failed".into(), json!({"step": si, "json": js, "error": e}))), steps, interesting),
                    }
                    for (k, s) in l.suggestions().iter().enumerate() {
                        // accessors agree with the suggestion they wrap
                        use harper_core::linting::Suggestion as CS;
                        let (want_kind, want_text) = match inner.suggestions.get(k) {
                            Some(CS::Remove) => ("Remove", String::new()),
                            Some(CS::ReplaceWith(c)) => ("Replace", c.iter().collect::<String>()),
                            Some(CS::InsertAfter(c)) => ("InsertAfter", c.iter().collect::<String>()),
                            None => ("?", String::new()),
                        };
                        if format!("{:?}", s.kind()) != want_kind || s.get_replacement_text() != want_text {
                            return (Some(("suggestion-accessors-disagree".into(), json!({"step": si, "kind": format!("{:?}", s.kind()), "text": s.get_replacement_text(), "want": [want_kind, want_text]}))), steps, interesting);
                        }
                    }
                    for s in l.suggestions() {
                        let sj = s.to_json();
                        match harper_wasm::Suggestion::from_json(sj.clone()) {
                            Ok(b) if b.to_json() == sj => {}
                            _ => return (Some(("suggestion-json-round-trip".into(), json!({"step": si, "json": sj}))), steps, interesting),
                        }
                    }
                    let spj = l.span().to_json();
                    match harper_wasm::Span::from_json(spj.clone()) {
                        Ok(b) if b.to_json() == spj => {}
                        _ => return (Some(("span-json-round-trip".into(), json!({"step": si, "json": spj}))), steps, interesting),
                    }
                    inners.push(inner);
                }
                for i in 0..inners.len() {
                    for j in i + 1..inners.len() {
                        let (a, b) = (inners[i].span, inners[j].span);
                        if a.start.max(b.start) < a.end.min(b.end) {
                            return (Some(("returned-lints-overlap".into(), json!({"step": si, "a": [a.start, a.end], "b": [b.start, b.end]}))), steps, interesting);
                        }
                    }
                }
                // R2 against the fresh reference pipeline
                let fresh = ref_lint(cache, dialect, &words, &cfg, &text, *md);
                let mut fk: Vec<LKey> = fresh.iter().map(lkey).collect();
                let gk: Vec<LKey> = inners.iter().map(lkey).collect();
                let mut unexplained_extra = vec![];
                for k in &gk {
                    if let Some(p) = fk.iter().position(|x| x == k) {
                        fk.remove(p);
                    } else {
                        unexplained_extra.push(k.clone());
                    }
                }
                // fk now = fresh lints that were not returned: each must be explained by an ignore
                let mut unexplained_missing = vec![];
                for k in &fk {
                    let flagged: String = chars[k.0..k.1].iter().collect();
                    let ok = ignored.iter().any(|ig| {
                        let ik = lkey(&ig.lint);
                        ik.2 == k.2 && ik.3 == k.3 && ik.4 == k.4 && ig.flagged == flagged
                    });
                    if !ok {
                        unexplained_missing.push(k.clone());
                    }
                }
                if !unexplained_extra.is_empty() || !unexplained_missing.is_empty() {
                    // as-is clause F13: case-colliding imported words
                    if let Some(cls) = has_case_collision(&words) {
                        let only_collision = unexplained_extra.iter().chain(unexplained_missing.iter()).all(|k| {
                            let flagged: String = chars[k.0..k.1].iter().collect();
                            k.2 == "Spelling" && flagged.to_lowercase() == cls
                        });
                        if only_collision {
                            return (Some(("F13-case-colliding-imported-words".into(), json!({"step": si, "class": cls, "flagged_again": unexplained_extra}))), steps, true);
                        }
                    }
                    let sig = if !unexplained_extra.is_empty() { "lint-not-produced-by-a-fresh-linter" } else { "lint-missing-without-being-ignored" };
                    return (Some((sig.into(), json!({"step": si, "text": text, "markdown": md, "extra": unexplained_extra, "missing": unexplained_missing, "fresh": fresh.iter().map(crate::sweep::lint_json).collect::<Vec<_>>()}))), steps, true);
                }
                // R3 an ignored lint of this very text stays hidden
                for ig in &ignored {
                    if ig.text == text && ig.md == *md && gk.contains(&lkey(&ig.lint)) {
                        return (Some(("ignored-lint-reported-again".into(), json!({"step": si, "lint": crate::sweep::lint_json(&ig.lint)}))), steps, true);
                    }
                }
                // R4 differential with the shadow that never exported/imported
                let a: Vec<String> = got.iter().map(|l| l.to_json()).collect();
                let b: Vec<String> = sh.iter().map(|l| l.to_json()).collect();
                if a != b {
                    // with case-colliding imported words (finding F13) export_words is lossy
                    if let Some(cls) = has_case_collision(&words) {
                        return (Some(("F13-case-colliding-imported-words".into(), json!({"step": si, "class": cls, "with": a, "without": b}))), steps, true);
                    }
                    return (Some(("export-import-changed-behaviour".into(), json!({"step": si, "with": a, "without": b}))), steps, true);
                }
                if !ignored.is_empty() || !words.is_empty() || !cfg.is_empty() {
                    interesting = true;
                }
                prev = last.take();
                last = Some((text, *md, got));
            }
            WOp::Ignore(_) | WOp::IgnorePrev(_) => {
                let (from, i) = match &ops[*oi] {
                    WOp::Ignore(i) => (&last, i),
                    WOp::IgnorePrev(i) => (&prev, i),
                    _ => unreachable!(),
                };
                let Some((text, md, lints)) = from else { continue };
                let Some(l) = lints.get(*i) else { continue };
                let Some((inner, flagged)) = inner_of(l) else { continue };
                let copy = harper_wasm::Lint::from_json(l.to_json()).unwrap();
                let copy2 = harper_wasm::Lint::from_json(l.to_json()).unwrap();
                real.ignore_lint(text.clone(), copy);
                shadow.ignore_lint(text.clone(), copy2);
                ignored_js.push((text.clone(), l.to_json()));
                ignored.push(IgnoredEntry { text: text.clone(), md: *md, lint: inner, flagged });
            }
            WOp::Apply(i, j) => {
                let Some((text, _md, lints)) = &last else { continue };
                let Some(l) = lints.get(*i) else { continue };
                let sugs = l.suggestions();
                let Some(s) = sugs.get(*j) else { continue };
                let Some((inner, _)) = inner_of(l) else { continue };
                let want = crate::sweep::ref_apply(&s2c(text), inner.span.start, inner.span.end, &inner.suggestions[*j]);
                match real.apply_suggestion(text.clone(), l, s) {
                    Ok(out) if out == c2s(&want) => {}
                    Ok(out) => return (Some(("apply-suggestion-not-local".into(), json!({"step": si, "got": out, "want": c2s(&want)}))), steps, true),
                    Err(e) => return (Some(("apply-suggestion-failed".into(), json!({"step": si, "error": e}))), steps, true),
                }
                let _ = shadow.apply_suggestion(text.clone(), l, s);
            }
            WOp::Import(wi) => {
                let ws: Vec<String> = W_WORDS[*wi].iter().map(|s| s.to_string()).collect();
                real.import_words(ws.clone());
                shadow.import_words(ws.clone());
                words.extend(ws);
                if format!("{:?}", real.get_dialect()) != format!("{:?}", dialect) {
                    return (Some(("dialect-changed-by-import".into(), json!({"step": si, "now": format!("{:?}", real.get_dialect())}))), steps, true);
                }
                // export must list what was imported (modulo the case collision)
                let exp: BTreeSet<String> = real.export_words().into_iter().collect();
                if has_case_collision(&words).is_none() && exp != words {
                    return (Some(("export-words-differs-from-imported".into(), json!({"step": si, "exported": exp, "imported": words}))), steps, true);
                }
            }
            WOp::Migrate => match migrate(&mut real, wd) {
                Ok(n) => real = n,
                Err(e) => return (Some(("migrate-failed".into(), json!({"step": si, "error": e}))), steps, true),
            },
            WOp::ClearIgnored => {
                real.clear_ignored_lints();
                shadow.clear_ignored_lints();
                ignored.clear();
                ignored_js.clear();
            }
            WOp::SnapshotIgnored => {
                snapshot = Some(real.export_ignored_lints());
                snapshot_model = ignored.clone();
                snapshot_js = ignored_js.clone();
            }
            WOp::ImportSnapshot => {
                // the union of the current list and an older copy of it is the current list
                let Some(js) = &snapshot else { continue };
                if let Err(e) = real.import_ignored_lints(js.clone()) {
                    return (Some(("import-ignored-failed".into(), json!({"step": si, "json": js, "error": e}))), steps, true);
                }
                // the shadow never exports or imports: it ignores the same lints directly
                for (t, js) in &snapshot_js {
                    if let Ok(l) = harper_wasm::Lint::from_json(js.clone()) {
                        shadow.ignore_lint(t.clone(), l);
                    }
                }
                ignored_js.extend(snapshot_js.iter().cloned());
                ignored.extend(snapshot_model.iter().cloned());
            }
            WOp::ReimportIgnored => {
                let js = real.export_ignored_lints();
                real.clear_ignored_lints();
                if let Err(e) = real.import_ignored_lints(js.clone()) {
                    return (Some(("import-ignored-failed".into(), json!({"step": si, "json": js, "error": e}))), steps, true);
                }
            }
            WOp::SetConfig(ci) => {
                let js = W_CFGS[*ci].to_string();
                if let Err(e) = real.set_lint_config_from_json(js.clone()) {
                    return (Some(("set-config-failed".into(), json!({"step": si, "error": e}))), steps, true);
                }
                let _ = shadow.set_lint_config_from_json(js.clone());
                let v: Value = serde_json::from_str(&js).unwrap();
                for (k, val) in v.as_object().unwrap() {
                    // merge semantics: null does not override an earlier explicit choice
                    if let Some(b) = val.as_bool() {
                        cfg.insert(k.clone(), Some(b));
                    }
                }
            }
        }
    }
    (None, steps, interesting)
}

fn describe_w(ops: &[WOp], seq: &[usize]) -> Value {
    json!({"engine":"E2","object":"harper_wasm::Linter","history": seq.iter().map(|i| {
        match &ops[*i] {
            WOp::Lint(t, md) => format!("lint({:?}, {})", W_TEXTS[*t], if *md {"Markdown"} else {"Plain"}),
            WOp::Ignore(i) => format!("ignore_lint(last[{i}])"),
            WOp::IgnorePrev(i) => format!("ignore_lint(lint {i} of the lint call before the last)"),
            WOp::Apply(i, j) => format!("apply_suggestion(last[{i}], suggestion {j})"),
            WOp::Import(w) => format!("import_words({:?})", W_WORDS[*w]),
            WOp::Migrate => "export words+ignored+config -> new Linter -> import".to_string(),
            WOp::ReimportIgnored => "export_ignored -> clear -> import_ignored".to_string(),
            WOp::ClearIgnored => "clear_ignored_lints()".to_string(),
            WOp::SnapshotIgnored => "snapshot = export_ignored_lints()".to_string(),
            WOp::ImportSnapshot => "import_ignored_lints(snapshot)".to_string(),
            WOp::SetConfig(c) => format!("set_lint_config_from_json({})", W_CFGS[*c]),
        }
    }).collect::<Vec<_>>(), "ops": seq})
}

pub fn run_c16(tier: Tier) -> i32 {
    let mut report = Report::new("C16", tier, "model_checking");
    let ops = wops();
    let depth = tier.pick(3, 4);
    let mut seqs = sequences(ops.len(), depth);
    // canonicalisation: drop histories that contain no lint operation at all (nothing observable)
    seqs.retain(|s| s.iter().any(|o| matches!(ops[*o], WOp::Lint(..))) || s.len() <= 1);
    // one level deeper for the shape "lint, ignore, <any operation>, lint the same text again"
    // (does anything make an ignored lint come back?)
    // "snapshot the (empty) ignore list, lint, ignore, import the snapshot, lint again": importing
    // an older list must not take anything away
    {
        let sn = ops.iter().position(|o| matches!(o, WOp::SnapshotIgnored)).unwrap();
        let im = ops.iter().position(|o| matches!(o, WOp::ImportSnapshot)).unwrap();
        for (li, l) in ops.iter().enumerate() {
            if !matches!(l, WOp::Lint(..)) {
                continue;
            }
            for (ii, i) in ops.iter().enumerate() {
                if matches!(i, WOp::Ignore(..)) {
                    seqs.push(vec![sn, li, ii, im, li]);
                    seqs.push(vec![li, ii, sn, li, ii, im, li]);
                }
            }
        }
    }
    // a SMALL own list absorbing a LARGER older one: lint A, ignore two of its lints, snapshot,
    // clear, lint B, ignore one of its lints, import the snapshot; B's and A's must all stay hidden
    {
        let sn = ops.iter().position(|o| matches!(o, WOp::SnapshotIgnored)).unwrap();
        let im = ops.iter().position(|o| matches!(o, WOp::ImportSnapshot)).unwrap();
        let cl = ops.iter().position(|o| matches!(o, WOp::ClearIgnored)).unwrap();
        let ig: Vec<usize> = ops.iter().enumerate().filter(|(_, o)| matches!(o, WOp::Ignore(..))).map(|(i, _)| i).collect();
        let lints: Vec<usize> = ops.iter().enumerate().filter(|(_, o)| matches!(o, WOp::Lint(..))).map(|(i, _)| i).collect();
        for a in &lints {
            for b in &lints {
                if a != b && ig.len() >= 2 {
                    seqs.push(vec![*a, ig[0], *a, ig[0], sn, cl, *b, ig[0], im, *b, *a]);
                    seqs.push(vec![*a, ig[0], ig[1], sn, cl, *b, ig[0], im, *b, *a]);
                }
            }
        }
    }
    if tier == Tier::Quick {
        for (li, l) in ops.iter().enumerate() {
            if !matches!(l, WOp::Lint(..)) {
                continue;
            }
            for (ii, i) in ops.iter().enumerate() {
                if !matches!(i, WOp::Ignore(..)) {
                    continue;
                }
                for x in 0..ops.len() {
                    seqs.push(vec![li, ii, x, li]);
                }
            }
            // "lint A, lint B, ignore a lint of A, lint A again"
            if let Some(ip) = ops.iter().position(|o| matches!(o, WOp::IgnorePrev(..))) {
                for (l2, o2) in ops.iter().enumerate() {
                    if matches!(o2, WOp::Lint(..)) {
                        seqs.push(vec![li, l2, ip, li]);
                    }
                }
            }
        }
    }
    // the other dialects: every history up to depth 2 (3 thorough)
    let mut jobs: Vec<(usize, Vec<usize>)> = seqs.into_iter().map(|s| (0usize, s)).collect();
    for di in 1..W_DIALECTS.len() {
        for s in sequences(ops.len(), tier.pick(2, 3)) {
            if s.iter().any(|o| matches!(ops[*o], WOp::Lint(..))) {
                jobs.push((di, s));
            }
        }
    }
    let n = jobs.len() as u64;
    let res = par_chunks(n, 40, ncpu(), |s, e| {
        let mut cache = RefCache { groups: HashMap::new(), results: HashMap::new() };
        let mut viols: Vec<Violation> = vec![];
        let mut transitions = 0u64;
        let mut interesting = 0u64;
        let mut states: BTreeSet<u64> = BTreeSet::new();
        for i in s..e {
            let (di, seq) = &jobs[i as usize];
            let di = *di;
            let r = catch(|| run_w_history_in(&ops, seq, &mut cache, di));
            match r {
                Ok((p, steps, int)) => {
                    transitions += steps;
                    if int {
                        interesting += 1;
                    }
                    states.insert(h64(&(di, seq)));
                    if let Some((sig, detail)) = p {
                        if viols.iter().filter(|v| v.sig == sig).count() < 3 {
                            let mut case = describe_w(&ops, seq);
                            case["dialect"] = json!(W_DIALECTS[di]);
                            viols.push(Violation { sig, case, detail });
                        } else {
                            viols.push(Violation { sig, case: json!({"ops": seq, "pad": "further case with this signature ................................................................................................................................................"}), detail: json!({}) });
                        }
                    }
                }
                Err(p) => {
                    viols.push(Violation { sig: format!("panic:{}", msg_class(&p.msg)), case: describe_w(&ops, seq), detail: json!({"at": format!("{}:{}", short_file(&p.file), p.line), "msg": p.msg}) });
                    cache = RefCache { groups: HashMap::new(), results: HashMap::new() };
                }
            }
        }
        (transitions, interesting, states, viols)
    });
    let mut transitions = 0;
    let mut interesting = 0;
    let mut states = 0u64;
    for (t, i, st, vs) in res {
        transitions += t;
        interesting += i;
        states += st.len() as u64;
        report.outcomes.extend(st.iter().take(50));
        for v in vs {
            report.violation(v);
        }
    }
    report.set("states", states);
    report.set("transitions", transitions);
    report.set("traces_validated_against_impl", n);
    report.set("histories", n);
    report.set("histories_linting_after_a_state_change", interesting);
    report.set("operations", ops.len() as u64);
    report.set("depth", depth as u64);
    report.set("exhaustive", true);
    report.sample(describe_w(&ops, &[11, 5, 7]));
    report.sample(describe_w(&ops, &[1, 0, 13]));
    report.assume("operation alphabet of 23 calls over 6 texts, depth bound as stated (American dialect; the other three dialects one level shallower); states = distinct histories (the history is the state; live objects cannot be hashed)");
    report.assume("reference = fresh core pipeline per query with one dictionary child per user word");
    report.finish()
}

// =============================================================================================
// C05 — LintGroup reuse across documents, languages, configurations, threads, processes

#[derive(Clone, Debug)]
pub enum GOp {
    Lint(usize, usize), // doc, parser
    Set(usize, Option<bool>),
    Flood,
}

pub const G_DOCS: &[&str] = &[
    "He is better *then* me",
    "Ünï 😀 ok.\n\nHe is better *then* me",
    "\"He is better then me\" they said",
    "This is an test. There there it is.",
    "This is an test",
    "Well, an test of teh thing.",
    "She said \"an problem\" here. This is an test.",
    "i think so.",
    "Teh markdwn is here.",
    "teh MARKDWN is here.",
    "A tset of the thrid wrod.",
];
pub const G_RULES: &[&str] = &["ThenThan", "AnA", "SpellCheck", "RepeatedWords"];

fn gparser(j: usize) -> Box<dyn Parser> {
    if j == 0 { Box::new(PlainEnglish) } else { Box::new(Markdown::default()) }
}

pub fn gops(tier: Tier) -> Vec<GOp> {
    let mut v = vec![];
    for d in 0..G_DOCS.len() {
        v.push(GOp::Lint(d, 0));
    }
    for d in [0usize, 1, 3, 6] {
        v.push(GOp::Lint(d, 1));
    }
    for r in 0..G_RULES.len() {
        v.push(GOp::Set(r, Some(false)));
        v.push(GOp::Set(r, None));
    }
    v.push(GOp::Set(0, Some(true)));
    if tier == Tier::Thorough {
        v.push(GOp::Flood);
    }
    v
}

fn flood_text() -> String {
    let mut s = String::new();
    for i in 0..10_050 {
        s.push_str(&format!("item {i} is an test, "));
    }
    s
}

/// The dictionary the way harper-ls and harper.js build it: curated FST + a (small) user dictionary
/// behind a MergedDictionary.
pub fn product_dict() -> Arc<MergedDictionary> {
    let mut m = MergedDictionary::new();
    m.add_dictionary(FstDictionary::curated());
    let mut user = MutableDictionary::new();
    for w in ["harperword", "tseta", "tsetb", "wroda"] {
        user.append_word_str(w, WordMetadata::default());
    }
    m.add_dictionary(Arc::new(user));
    Arc::new(m)
}

pub fn run_g_history(ops: &[GOp], seq: &[usize], _curated: &Arc<FstDictionary>, fresh_cache: &mut HashMap<String, Vec<LKey>>) -> (Option<(String, Value)>, u64, u64) {
    // each linter gets its own dictionary instance, as each server/linter object does
    let dict = product_dict();
    let dict = &dict;
    let mut g = LintGroup::new_curated(dict.clone(), Dialect::American);
    let mut cfg_desc: BTreeMap<String, Option<bool>> = BTreeMap::new();
    let mut steps = 0;
    let mut hits = 0u64;
    let mut seen_chunks: BTreeSet<(usize, usize)> = BTreeSet::new();
    for (si, oi) in seq.iter().enumerate() {
        steps += 1;
        match &ops[*oi] {
            GOp::Set(r, v) => {
                match v {
                    Some(b) => g.config.set_rule_enabled(G_RULES[*r], *b),
                    None => g.config.unset_rule_enabled(G_RULES[*r]),
                }
                cfg_desc.insert(G_RULES[*r].to_string(), *v);
            }
            GOp::Flood => {
                let t = flood_text();
                let doc = Document::new(&t, &PlainEnglish, &**dict);
                let _ = g.lint(&doc);
            }
            GOp::Lint(d, p) => {
                let parser = gparser(*p);
                let doc = Document::new(G_DOCS[*d], &parser, &**dict);
                // the way harper-ls / harper-wasm call it: overlay curated defaults around the call
                let temp = g.config.clone();
                g.config.fill_with_curated();
                let got: Vec<LKey> = g.lint(&doc).iter().map(lkey).collect();
                let filled = g.config.clone();
                g.config = temp;
                if !seen_chunks.insert((*d, *p)) || seen_chunks.len() > 1 {
                    hits += 1;
                }
                let fk = format!("{cfg_desc:?}|{d}|{p}");
                let want = fresh_cache.entry(fk).or_insert_with(|| {
                    let fresh_dict = product_dict();
                    let fresh_doc = Document::new(G_DOCS[*d], &parser, &*fresh_dict);
                    let mut f = LintGroup::new_curated(fresh_dict, Dialect::American).with_lint_config(filled.clone());
                    f.lint(&fresh_doc).iter().map(lkey).collect()
                });
                if &got != want {
                    let extra: Vec<&LKey> = got.iter().filter(|k| !want.contains(k)).collect();
                    let missing: Vec<&LKey> = want.iter().filter(|k| !got.contains(k)).collect();
                    let what = if extra.is_empty() && missing.is_empty() { "order-differs" } else if !extra.is_empty() { "stale-or-foreign-lint" } else { "lint-lost" };
                    // cause class: did an earlier step lint the same clause under the other language?
                    let cross = seq[..si].iter().any(|o| matches!(&ops[*o], GOp::Lint(_, q) if q != p));
                    let cls = if cross { "after-other-language" } else { "same-language" };
                    return (Some((format!("reused-linter-differs-from-fresh:{what}:{cls}"), json!({"step": si, "document": G_DOCS[*d], "parser": if *p == 0 {"PlainEnglish"} else {"Markdown"}, "extra": extra, "missing": missing}))), steps, hits);
                }
            }
        }
    }
    (None, steps, hits)
}

fn describe_g(ops: &[GOp], seq: &[usize]) -> Value {
    json!({"engine":"E2","object":"LintGroup","history": seq.iter().map(|i| match &ops[*i] {
        GOp::Lint(d, p) => format!("lint({:?}, {})", G_DOCS[*d], if *p == 0 {"PlainEnglish"} else {"Markdown"}),
        GOp::Set(r, v) => format!("set_rule({}, {:?})", G_RULES[*r], v),
        GOp::Flood => "lint(flood document with 10050 distinct clauses)".to_string(),
    }).collect::<Vec<_>>(), "ops": seq})
}

/// Output of the fixed menu, serialised (for the cross-process and cross-thread comparison).
pub fn menu_output() -> String {
    let dict = product_dict();
    let mut g = LintGroup::new_curated(dict.clone(), Dialect::American);
    g.set_all_rules_to(Some(true));
    let mut out = vec![];
    let h = crate::harvest::load();
    let mut texts: Vec<String> = G_DOCS.iter().map(|s| s.to_string()).collect();
    texts.extend(h.seeds.iter().filter(|s| s.len() > 10).step_by(23).take(80).cloned());
    for t in &texts {
        for p in 0..2 {
            let parser = gparser(p);
            let doc = Document::new(t, &parser, &*dict);
            let l: Vec<LKey> = g.lint(&doc).iter().map(lkey).collect();
            out.push(json!({"text": t, "parser": p, "lints": l}));
        }
    }
    // spelling suggestions through both back-ends (hash-seed dependent orderings show up here)
    let md = MutableDictionary::curated();
    let fst = FstDictionary::curated();
    for w in ["teh", "wrod", "speling", "abot", "recieve", "tset", "thrid"] {
        let a: Vec<String> = harper_core::spell::suggest_correct_spelling_str(w, 10, 2, &*fst);
        let b: Vec<String> = harper_core::spell::suggest_correct_spelling_str(w, 10, 2, &*md);
        let c: Vec<String> = harper_core::spell::suggest_correct_spelling_str(w, 10, 2, &*dict);
        out.push(json!({"word": w, "fst": a, "mutable": b, "merged": c}));
    }
    serde_json::to_string(&out).unwrap()
}

/// Same token geometry, different words: every harvested seed followed by its *shape twin* (every
/// letter replaced, all spans identical) on ONE long-lived LintGroup; both results must equal
/// those of a brand-new LintGroup. A memo keyed by position instead of content shows here.
fn c05_shape_twins(report: &mut Report, tier: Tier) {
    let h = crate::harvest::harvest();
    let seeds: Vec<String> = h.seeds.iter().filter(|s| s.chars().count() <= 160).step_by(tier.pick(2, 1)).cloned().collect();
    let twin = |s: &str| -> String { s.chars().map(|c| if c.is_uppercase() { 'O' } else if c.is_alphabetic() { 'o' } else { c }).collect() };
    let twin2 = |s: &str| -> String {
        // a second twin made of real words where lengths allow (red car / big dog / tall tree ...)
        let fill = |n: usize, cap: bool| -> String {
            let w = match n { 1 => "a", 2 => "of", 3 => "red", 4 => "tall", 5 => "green", 6 => "yellow", 7 => "younger", 8 => "mountain", _ => "" };
            let mut w = if w.is_empty() { "o".repeat(n) } else { w.to_string() };
            if cap { w = w[..1].to_uppercase() + &w[1..]; }
            w
        };
        let mut out = String::new();
        let cs: Vec<char> = s.chars().collect();
        let mut i = 0;
        while i < cs.len() {
            if cs[i].is_alphabetic() && cs[i].is_ascii() {
                let mut j = i;
                while j < cs.len() && cs[j].is_alphabetic() && cs[j].is_ascii() { j += 1; }
                out.push_str(&fill(j - i, cs[i].is_uppercase()));
                i = j;
            } else {
                out.push(cs[i]);
                i += 1;
            }
        }
        out
    };
    let dict = product_dict();
    let n = seeds.len() as u64;
    let res = par_chunks(n, 40, ncpu(), |s, e| {
        let mut warm = LintGroup::new_curated(dict.clone(), Dialect::American);
        let mut viols: Vec<Violation> = vec![];
        let mut steps = 0u64;
        for i in s..e {
            let seed = &seeds[i as usize];
            for (which, text) in [("seed", seed.clone()), ("letter-twin", twin(seed)), ("seed-again", seed.clone()), ("word-twin", twin2(seed))] {
                steps += 1;
                let r = catch(|| {
                    let doc = Document::new(&text, &PlainEnglish, &*dict);
                    let got: Vec<LKey> = warm.lint(&doc).iter().map(lkey).collect();
                    let mut fresh = LintGroup::new_curated(dict.clone(), Dialect::American);
                    let want: Vec<LKey> = fresh.lint(&doc).iter().map(lkey).collect();
                    (got, want)
                });
                let Ok((got, want)) = r else {
                    warm = LintGroup::new_curated(dict.clone(), Dialect::American);
                    continue;
                };
                if got != want && viols.len() < 4 {
                    viols.push(Violation { sig: "shape-twin:warm-linter-differs-from-fresh".into(), case: json!({"engine":"E2","object":"LintGroup","history": ["lint(seed)", "lint(letter twin)", "lint(seed)", "lint(word twin)"], "seed": seed, "failing_step": which, "text": text}), detail: json!({"warm": got, "fresh": want}) });
                }
            }
        }
        (steps, viols)
    });
    let mut steps = 0;
    for (st, vs) in res {
        steps += st;
        for v in vs {
            report.violation(v);
        }
    }
    report.set("shape_twin_lint_steps", steps);
}

/// Order independence on a large document list: every seed, its lower-cased proper-noun frame,
/// and every word-initial suffix of it behind four different left contexts (nothing, a comma, a
/// closing quote, a paragraph break) is linted by warm linter A in list order and by warm linter B
/// in reverse order; each document's two results must be equal (and equal to a brand-new linter's
/// for every 16th document). State that learns from the previous match, and verdicts that depend on
/// the character before a clause while the cache key does not, both make A and B disagree.
fn c05_neighbours_and_contexts(report: &mut Report, tier: Tier) {
    let h = crate::harvest::harvest();
    let mut seeds: Vec<String> = h.seeds.iter().filter(|s| s.chars().count() <= 160).cloned().collect();
    // alphabetical: phrases that are prefixes or variants of each other end up on the same linter
    seeds.sort_by_key(|s| s.to_lowercase());
    seeds.dedup();
    let dict = product_dict();
    let max_suffixes = tier.pick(6usize, 40usize);
    let n = seeds.len() as u64;
    let res = par_chunks(n, 60, ncpu(), |s, e| {
        // documents in groups: a group is one text behind each of the four left contexts (or a
        // single document); pass k walks the groups forward (k even) or backward (k odd) and starts
        // every group with its k-th context
        let mut docs: Vec<String> = vec![];
        let mut groups: Vec<Vec<usize>> = vec![];
        let push_single = |docs: &mut Vec<String>, groups: &mut Vec<Vec<usize>>, t: String| {
            docs.push(t);
            groups.push(vec![docs.len() - 1]);
        };
        for seed in &seeds[s as usize..e as usize] {
            push_single(&mut docs, &mut groups, seed.clone());
            if seed.chars().any(|c| c.is_uppercase()) && seed.chars().count() <= 60 {
                push_single(&mut docs, &mut groups, format!("We saw {} there.", seed.to_lowercase()));
            }
            let toks = crate::spaces::coarse_tokens(seed);
            let mut made = 0;
            for t in 1..toks.len() {
                if toks[t].chars().all(|c| c == ' ' || c == '\t') || made >= max_suffixes {
                    continue;
                }
                made += 1;
                let suf: String = toks[t..].concat();
                let mut g = vec![];
                for ctx in ["", ",", "\"q\"", "Well today!\n\n"] {
                    docs.push(format!("{ctx}{suf}"));
                    g.push(docs.len() - 1);
                }
                groups.push(g);
            }
        }
        let lint_pass = |k: usize| -> HashMap<usize, Vec<LKey>> {
            let mut order: Vec<usize> = vec![];
            let gs: Vec<&Vec<usize>> = if k % 2 == 0 { groups.iter().collect() } else { groups.iter().rev().collect() };
            for g in gs {
                for j in 0..g.len() {
                    order.push(g[(j + k) % g.len()]);
                }
            }
            let mut g = LintGroup::new_curated(dict.clone(), Dialect::American);
            let mut out = HashMap::new();
            for i in order {
                match catch(|| {
                    let doc = Document::new(&docs[i], &PlainEnglish, &*dict);
                    g.lint(&doc).iter().map(lkey).collect::<Vec<LKey>>()
                }) {
                    Ok(v) => {
                        out.insert(i, v);
                    }
                    Err(_) => g = LintGroup::new_curated(dict.clone(), Dialect::American),
                }
            }
            out
        };
        let passes: Vec<HashMap<usize, Vec<LKey>>> = (0..4).map(lint_pass).collect();
        let a = &passes[0];
        let mut viols: Vec<Violation> = vec![];
        for i in 0..docs.len() {
            let Some(x) = a.get(&i) else { continue };
            let Some(y) = passes[1..].iter().filter_map(|p| p.get(&i)).find(|y| *y != x).or(passes[1].get(&i)) else { continue };
            if x != y && viols.len() < 4 {
                viols.push(Violation { sig: "order-of-earlier-documents-changes-result".into(), case: json!({"engine":"E2","object":"LintGroup","text": docs[i], "history": "the same document list linted in four different orders on four warm linters"}), detail: json!({"after_the_documents_before_it": x, "after_the_documents_behind_it": y}) });
            }
            if i % 16 == 0 {
                let fresh: Vec<LKey> = catch(|| {
                    let doc = Document::new(&docs[i], &PlainEnglish, &*dict);
                    LintGroup::new_curated(dict.clone(), Dialect::American).lint(&doc).iter().map(lkey).collect::<Vec<LKey>>()
                })
                .unwrap_or_default();
                if *x != fresh && viols.len() < 4 {
                    viols.push(Violation { sig: "order-of-earlier-documents-changes-result:differs-from-fresh".into(), case: json!({"engine":"E2","object":"LintGroup","text": docs[i]}), detail: json!({"warm": x, "fresh": fresh}) });
                }
            }
        }
        (4 * docs.len() as u64, viols)
    });
    let mut steps = 0;
    for (st, vs) in res {
        steps += st;
        for v in vs {
            report.violation(v);
        }
    }
    report.set("order_independence_lint_steps", steps);
}

/// The same clauses under two dictionaries and four parser compositions (plain, Markdown, each
/// optionally behind IsolateEnglish), every ordered sequence up to a depth on ONE thread, each step
/// compared with the same (text, parser, dictionary) evaluated on a fresh thread: per-thread or
/// global memos that forget the dictionary or the parser show here.
fn c05_dictionaries_and_parsers(report: &mut Report, tier: Tier) {
    use harper_core::parsers::IsolateEnglish;
    use harper_core::{MutableDictionary, WordMetadata};
    const TEXTS_D: [&str; 4] = [
        "Ask Zorblax about the the report.",
        "Zorblax qzxv brimtol the the cat sat.",
        "Ceci n'est pas une phrase the the anglaise. This one is an test.",
        "The web cam and the `cde` there there.",
    ];
    let texts = TEXTS_D;
    let d0 = product_dict();
    let d1: Arc<MergedDictionary> = {
        let mut user = MutableDictionary::new();
        for w in ["Zorblax", "qzxv", "brimtol", "cde"] {
            user.append_word(w.chars().collect::<Vec<_>>(), WordMetadata::default());
        }
        let mut m = MergedDictionary::new();
        m.add_dictionary(FstDictionary::curated());
        m.add_dictionary(Arc::new(user));
        Arc::new(m)
    };
    let dicts = [d0, d1];
    let eval = move |ti: usize, di: usize, pi: usize, dicts: &[Arc<MergedDictionary>; 2]| -> Vec<LKey> {
        let dict = dicts[di].clone();
        let base: Box<dyn Parser> = if pi % 2 == 0 { Box::new(PlainEnglish) } else { Box::new(Markdown::default()) };
        let parser: Box<dyn Parser> = if pi >= 2 { Box::new(IsolateEnglish::new(base, dict.clone())) } else { base };
        let doc = Document::new(TEXTS_D[ti], &parser, &*dict);
        let mut g = LintGroup::new_curated(dict.clone(), Dialect::American);
        g.lint(&doc).iter().map(lkey).collect()
    };
    // alphabet: (text, dictionary, parser)
    let mut alpha: Vec<(usize, usize, usize)> = vec![];
    for ti in 0..texts.len() {
        for di in 0..2 {
            for pi in 0..4 {
                alpha.push((ti, di, pi));
            }
        }
    }
    // reference: each letter on its own fresh thread
    let reference: Vec<Vec<LKey>> = alpha
        .iter()
        .map(|(ti, di, pi)| {
            let (ti, di, pi) = (*ti, *di, *pi);
            let dicts = dicts.clone();
            std::thread::spawn(move || catch(|| eval(ti, di, pi, &dicts)).unwrap_or_default()).join().unwrap_or_default()
        })
        .collect();
    let depth = tier.pick(2, 3);
    let seqs = sequences(alpha.len(), depth);
    let n = seqs.len() as u64;
    // each history on its own fresh thread (thread-local state starts empty, then accumulates)
    let res = par_chunks(n, 16, ncpu(), |s, e| {
        let mut viols: Vec<Violation> = vec![];
        let mut steps = 0u64;
        for i in s..e {
            let seq = seqs[i as usize].clone();
            if seq.is_empty() {
                continue;
            }
            let dicts2 = dicts.clone();
            let alpha2 = alpha.clone();
            let outs: Vec<Vec<LKey>> = std::thread::spawn(move || seq.iter().map(|a| { let (ti, di, pi) = alpha2[*a]; catch(|| eval(ti, di, pi, &dicts2)).unwrap_or_default() }).collect()).join().unwrap_or_default();
            for (k, a) in seqs[i as usize].iter().enumerate() {
                steps += 1;
                if outs.get(k) != Some(&reference[*a]) && viols.len() < 4 {
                    let name = |a: &usize| { let (ti, di, pi) = alpha[*a]; format!("lint({:?}, dictionary {}, parser {})", texts[ti], ["curated", "curated+user words"][di], ["plain", "markdown", "isolate(plain)", "isolate(markdown)"][pi]) };
                    viols.push(Violation { sig: "same-thread-history-changes-result".into(), case: json!({"engine":"E2","object":"Document+LintGroup on one thread","history": seqs[i as usize].iter().map(name).collect::<Vec<_>>(), "failing_step": k}), detail: json!({"got": outs.get(k), "on_a_fresh_thread": reference[*a]}) });
                }
            }
        }
        (steps, viols)
    });
    let mut steps = 0;
    for (st, vs) in res {
        steps += st;
        for v in vs {
            report.violation(v);
        }
    }
    report.set("dictionary_parser_history_steps", steps);
}

pub fn run_c05(tier: Tier) -> i32 {
    let mut report = Report::new("C05", tier, "model_checking");
    let ops = gops(tier);
    let depth = tier.pick(3, 4);
    let mut seqs = sequences(ops.len(), depth);
    // canonicalisation: a history whose last operation is not a lint observes nothing new
    seqs.retain(|s| s.last().map(|o| matches!(ops[*o], GOp::Lint(..))).unwrap_or(false));
    // the flood is expensive: allow it only once per history and only in second position
    // (a flood costs seconds: histories of exactly three operations, flood in the middle)
    seqs.retain(|s| s.iter().filter(|o| matches!(ops[**o], GOp::Flood)).count() == 0 || (s.len() == 3 && matches!(ops[s[1]], GOp::Flood) && s.iter().filter(|o| matches!(ops[**o], GOp::Flood)).count() == 1));
    let n = seqs.len() as u64;
    let dict = FstDictionary::curated();
    let res = par_chunks(n, 60, ncpu(), |s, e| {
        let mut fresh_cache: HashMap<String, Vec<LKey>> = HashMap::new();
        let mut viols: Vec<Violation> = vec![];
        let mut transitions = 0u64;
        let mut hits = 0u64;
        let mut states: BTreeSet<u64> = BTreeSet::new();
        for i in s..e {
            let seq = &seqs[i as usize];
            match catch(|| run_g_history(&ops, seq, &dict, &mut fresh_cache)) {
                Ok((p, steps, h)) => {
                    transitions += steps;
                    hits += h;
                    states.insert(h64(seq));
                    if let Some((sig, detail)) = p {
                        if viols.iter().filter(|v| v.sig == sig).count() < 2 {
                            viols.push(Violation { sig, case: describe_g(&ops, seq), detail });
                        } else {
                            viols.push(Violation { sig, case: json!({"ops": seq, "pad": "further case ......................................................................................................................................................................................................"}), detail: json!({}) });
                        }
                    }
                }
                Err(p) => viols.push(Violation { sig: format!("panic:{}", msg_class(&p.msg)), case: describe_g(&ops, seq), detail: json!({"msg": p.msg}) }),
            }
        }
        (transitions, hits, states, viols)
    });
    let mut transitions = 0;
    let mut hits = 0;
    let mut states = 0u64;
    for (t, h, st, vs) in res {
        transitions += t;
        hits += h;
        states += st.len() as u64;
        report.outcomes.extend(st.iter().take(50));
        for v in vs {
            report.violation(v);
        }
    }
    report.set("histories", n);
    report.set("lint_steps_on_a_warm_linter", hits);
    c05_shape_twins(&mut report, tier);
    c05_neighbours_and_contexts(&mut report, tier);
    c05_dictionaries_and_parsers(&mut report, tier);

    // threads: every assignment of 4 menu slices to 2 and 3 free-running OS threads, each with its
    // own LintGroup, must serialise to the same output as one thread
    let single = menu_output();
    let mut thread_runs = 0u64;
    for nthreads in [2usize, 3] {
        let outs: Vec<String> = std::thread::scope(|sc| {
            let hs: Vec<_> = (0..nthreads).map(|_| sc.spawn(menu_output)).collect();
            hs.into_iter().map(|h| h.join().unwrap_or_default()).collect()
        });
        for o in outs {
            thread_runs += 1;
            if o != single {
                report.violation(Violation { sig: "thread-changes-result".into(), case: json!({"engine":"E2","object":"LintGroup","threads": nthreads}), detail: json!({"note": "menu output on a fresh thread differs from the main thread"}) });
            }
        }
    }
    // processes: the same menu in separate processes (randomly seeded hashers differ per process)
    let exe = std::env::current_exe().unwrap();
    let mut proc_runs = 0u64;
    for _ in 0..tier.pick(2, 4) {
        let out = std::process::Command::new(&exe).arg("c05-menu").output();
        match out {
            Ok(o) if o.status.success() => {
                proc_runs += 1;
                let s = String::from_utf8_lossy(&o.stdout).to_string();
                if s.trim() != single.trim() {
                    // find the first differing entry
                    let a: Vec<Value> = serde_json::from_str(&single).unwrap_or_default();
                    let b: Vec<Value> = serde_json::from_str(s.trim()).unwrap_or_default();
                    let diff = a.iter().zip(b.iter()).find(|(x, y)| x != y).map(|(x, y)| json!({"this_process": x, "other_process": y}));
                    report.violation(Violation { sig: "process-changes-result".into(), case: json!({"engine":"E2","object":"menu in a separate process"}), detail: json!({"first_difference": diff}) });
                }
            }
            _ => report.machinery("could not run the menu in a child process"),
        }
    }
    report.set("thread_runs", thread_runs);
    report.set("process_runs", proc_runs);
    report.set("states", states);
    report.set("transitions", transitions);
    report.set("traces_validated_against_impl", n + thread_runs + proc_runs);
    report.set("operations", ops.len() as u64);
    report.set("depth", depth as u64);
    report.set("exhaustive", true);
    report.sample(describe_g(&ops, &[8, 0]));
    report.sample(describe_g(&ops, &[3, 14, 3]));
    report.assume("no harper-core code path uses a lock or atomic of its own (lazy_static dictionaries, one #[cached] function): the schedule dimension is degenerate, so threads are covered by free-running OS threads per LintGroup and compared with the single-thread output; loom/shuttle would explore nothing");
    report.assume("document menu chosen to force cache-key collisions: same clause under two languages, at two offsets, inside/outside quotes, with/without a following clause");
    report.finish()
}

/// Replay entry points: one history, no explorer.
pub fn replay_c16(case: &Value) -> Vec<(String, Value)> {
    let ops = wops();
    let seq: Vec<usize> = case["ops"].as_array().map(|a| a.iter().filter_map(|x| x.as_u64().map(|v| v as usize)).collect()).unwrap_or_default();
    if seq.iter().any(|i| *i >= ops.len()) {
        return vec![("bad-replay-file".into(), json!({}))];
    }
    let mut cache = RefCache { groups: HashMap::new(), results: HashMap::new() };
    let di = case["dialect"].as_str().and_then(|d| W_DIALECTS.iter().position(|x| *x == d)).unwrap_or(0);
    match catch(|| run_w_history_in(&ops, &seq, &mut cache, di)) {
        Ok((Some(p), _, _)) => vec![p],
        Ok((None, _, _)) => vec![],
        Err(p) => vec![(format!("panic:{}", msg_class(&p.msg)), json!({"msg": p.msg}))],
    }
}

pub fn replay_c05(case: &Value) -> Vec<(String, Value)> {
    let ops = gops(Tier::Thorough);
    let seq: Vec<usize> = case["ops"].as_array().map(|a| a.iter().filter_map(|x| x.as_u64().map(|v| v as usize)).collect()).unwrap_or_default();
    if seq.iter().any(|i| *i >= ops.len()) {
        return vec![("bad-replay-file".into(), json!({}))];
    }
    let dict = FstDictionary::curated();
    let mut fresh: HashMap<String, Vec<LKey>> = HashMap::new();
    match catch(|| run_g_history(&ops, &seq, &dict, &mut fresh)) {
        Ok((Some(p), _, _)) => vec![p],
        Ok((None, _, _)) => vec![],
        Err(p) => vec![(format!("panic:{}", msg_class(&p.msg)), json!({"msg": p.msg}))],
    }
}
