//! Deterministic, finite, index-addressable input spaces (G1, G2, G3 of DESIGN.md §2).

use std::collections::BTreeSet;
use std::sync::Arc;

#[derive(Clone)]
pub enum Gen {
    /// G1: all strings over `atoms` of length 0..=max_len, shortlex.
    Strings { atoms: Vec<String>, max_len: usize },
    /// G2: w1 sep w2 end
    Pairs {
        vocab: Arc<Vec<String>>,
        vocab2: Arc<Vec<String>>,
        seps: Vec<String>,
        ends: Vec<String>,
    },
    /// explicit list
    List(Arc<Vec<String>>),
}

impl Gen {
    pub fn len(&self) -> u64 {
        match self {
            Gen::Strings { atoms, max_len } => {
                let k = atoms.len() as u64;
                let mut tot = 0u64;
                let mut p = 1u64;
                for _ in 0..=*max_len {
                    tot += p;
                    p *= k;
                }
                tot
            }
            Gen::Pairs {
                vocab,
                vocab2,
                seps,
                ends,
            } => vocab.len() as u64 * vocab2.len() as u64 * seps.len() as u64 * ends.len() as u64,
            Gen::List(l) => l.len() as u64,
        }
    }

    pub fn get(&self, mut idx: u64) -> String {
        match self {
            Gen::Strings { atoms, max_len } => {
                let k = atoms.len() as u64;
                let mut l = 0usize;
                let mut p = 1u64;
                while l <= *max_len {
                    if idx < p {
                        break;
                    }
                    idx -= p;
                    p *= k;
                    l += 1;
                }
                let mut digits = vec![0usize; l];
                for d in (0..l).rev() {
                    digits[d] = (idx % k) as usize;
                    idx /= k;
                }
                let mut s = String::new();
                for d in digits {
                    s.push_str(&atoms[d]);
                }
                s
            }
            Gen::Pairs {
                vocab,
                vocab2,
                seps,
                ends,
            } => {
                let e = (idx % ends.len() as u64) as usize;
                idx /= ends.len() as u64;
                let s = (idx % seps.len() as u64) as usize;
                idx /= seps.len() as u64;
                let w2 = (idx % vocab2.len() as u64) as usize;
                idx /= vocab2.len() as u64;
                let w1 = idx as usize;
                format!("{}{}{}{}", vocab[w1], seps[s], vocab2[w2], ends[e])
            }
            Gen::List(l) => l[idx as usize].clone(),
        }
    }
}

/// Coarse tokenisation used only to choose deviation points (word runs, blank runs, single others).
pub fn coarse_tokens(s: &str) -> Vec<String> {
    let mut out: Vec<String> = vec![];
    let mut cur = String::new();
    let mut kind = 0u8; // 1 word, 2 blank
    for ch in s.chars() {
        let k = if ch.is_alphanumeric() || ch == '\'' || ch == '’' {
            1
        } else if ch == ' ' || ch == '\t' {
            2
        } else {
            3
        };
        if k == 3 {
            if !cur.is_empty() {
                out.push(std::mem::take(&mut cur));
            }
            out.push(ch.to_string());
            kind = 0;
            continue;
        }
        if k != kind && !cur.is_empty() {
            out.push(std::mem::take(&mut cur));
        }
        kind = k;
        cur.push(ch);
    }
    if !cur.is_empty() {
        out.push(cur);
    }
    out
}

pub struct G3Opts {
    pub prefixes: bool,
    pub suffixes: bool,
    pub windows: usize, // max window size in tokens, 0 = off
    pub deletions: bool,
    pub ends: Vec<String>,
    pub second_order: bool, // deletion ∘ window
    /// replace each blank run (one at a time) by each of these (multi-token whitespace)
    pub ws_variants: Vec<String>,
}

/// G3: bounded deviations of the seed texts.
pub fn g3(seeds: &[String], o: &G3Opts) -> Vec<String> {
    let mut set: BTreeSet<String> = BTreeSet::new();
    let mut base: Vec<String> = vec![];
    for s in seeds {
        let toks = coarse_tokens(s);
        let n = toks.len();
        base.clear();
        base.push(s.clone());
        if o.prefixes {
            for i in 0..=n {
                base.push(toks[..i].concat());
            }
        }
        if o.suffixes {
            for i in 1..n {
                base.push(toks[i..].concat());
            }
        }
        if o.windows > 0 {
            for i in 0..n {
                for w in 1..=o.windows {
                    if i + w <= n {
                        let win = &toks[i..i + w];
                        base.push(win.concat());
                        if o.second_order && w >= 3 {
                            for d in 0..w {
                                let mut t = win.to_vec();
                                t.remove(d);
                                base.push(t.concat());
                            }
                        }
                    }
                }
            }
        }
        for v in &o.ws_variants {
            for d in 0..n {
                if toks[d].chars().all(|c| c == ' ') && !toks[d].is_empty() {
                    let mut t = toks.clone();
                    t[d] = v.clone();
                    base.push(t.concat());
                }
            }
        }
        if o.deletions {
            for d in 0..n {
                let mut t = toks.clone();
                t.remove(d);
                base.push(t.concat());
            }
        }
        for b in &base {
            for e in &o.ends {
                let mut x = b.clone();
                x.push_str(e);
                set.insert(x);
            }
        }
    }
    let mut v: Vec<String> = set.into_iter().collect();
    v.sort_by(|a, b| (a.len(), a).cmp(&(b.len(), b)));
    v
}

pub struct Family {
    pub name: String,
    /// indices into the front-end table
    pub fes: Vec<usize>,
    pub generator: Gen,
    /// embed the generated text in the front-end's prose position
    pub embed: bool,
}

pub struct TextSpace {
    pub families: Vec<Family>,
    offsets: Vec<u64>,
}

impl TextSpace {
    pub fn new(families: Vec<Family>) -> Self {
        let mut offsets = vec![0u64];
        for f in &families {
            let n = f.generator.len() * f.fes.len() as u64;
            offsets.push(offsets.last().unwrap() + n);
        }
        Self { families, offsets }
    }
    pub fn len(&self) -> u64 {
        *self.offsets.last().unwrap()
    }
    /// -> (family index, front-end index, raw generated text)
    pub fn get(&self, idx: u64) -> (usize, usize, String) {
        let fi = match self.offsets.binary_search(&idx) {
            Ok(mut i) => {
                // skip empty families
                while self.offsets[i + 1] == self.offsets[i] {
                    i += 1;
                }
                i
            }
            Err(i) => i - 1,
        };
        let f = &self.families[fi];
        let local = idx - self.offsets[fi];
        let nfe = f.fes.len() as u64;
        let t = local / nfe;
        let fe = f.fes[(local % nfe) as usize];
        (fi, fe, f.generator.get(t))
    }
    pub fn family_sizes(&self) -> Vec<(String, u64)> {
        self.families
            .iter()
            .enumerate()
            .map(|(i, f)| (f.name.clone(), self.offsets[i + 1] - self.offsets[i]))
            .collect()
    }
}

pub fn strs(v: &[&str]) -> Vec<String> {
    v.iter().map(|s| s.to_string()).collect()
}

/// Σ_char of DESIGN.md §2
pub fn sigma_char() -> Vec<String> {
    strs(&[
        "a", " ", ".", "I", "s", "1", "'", ",", "\n", "-", "0", "x", "\"", "@", ":", "/", "[", "]",
        "\t", "é", "😀", "世", "²", "’",
    ])
}

pub fn sigma_md() -> Vec<String> {
    strs(&[
        "a", " ", "\n", "*", "_", "`", "#", ">", "<", "&", ";", "|", "$", "\\", "(", ")", "[", "]",
        "!", "~", "^", "\r", "-", "\t", ".", "1", "é", ":", "[[", "]]", "  \n", "&amp;", "😀",
    ])
}

pub fn sigma_html() -> Vec<String> {
    strs(&[
        "a", " ", "<", ">", "/", "p", "b", "&", ";", "=", "\"", "\n", "é", "<!--", "-->", "😀", ".", "\r\n",
    ])
}

pub fn sigma_typst() -> Vec<String> {
    strs(&[
        "a", " ", "\n", "#", "(", ")", "[", "]", "{", "}", "\"", "*", "_", "=", ":", ",", ".", "$",
        "é", "let ", "show ", "set ", "x.y", "#f(", "// ", "/*", "*/", "😀", "-", "+", "1", "\r\n",
    ])
}

pub fn sigma_lhs() -> Vec<String> {
    strs(&[
        "a", " ", "\n", ">", "\\begin{code}", "\\end{code}", "é", ".", "> x", "x = 1", "--", "😀",
        "#", "*", "\r\n", "\r",
    ])
}

/// Σ_lang: per-language atoms (comment leaders, block delimiters, strings, statements, doc tags).
pub fn sigma_lang(lang: &str) -> Vec<String> {
    let mut v = strs(&["a", " ", "\n", "é", ".", "x", "\"", "😀", "\r\n", "  ", "*", "@", "{", "}"]);
    let lead = crate::frontends::line_leader(lang).trim().to_string();
    v.push(lead.clone());
    match lang {
        "python" | "nix" | "cmake" | "ruby" | "toml" | "shellscript" => {
            v.push("#!".into());
            v.push("x = 1".into());
            v.push("'".into());
        }
        "lua" => {
            v.push("--[[".into());
            v.push("]]".into());
            v.push("x = 1".into());
        }
        "haskell" => {
            v.push("{-".into());
            v.push("-}".into());
            v.push("x = 1".into());
            v.push("-- |".into());
        }
        _ => {
            v.push("/*".into());
            v.push("*/".into());
            v.push("/**".into());
            v.push("///".into());
            v.push("x;".into());
        }
    }
    match lang {
        "javascript" | "typescript" | "javascriptreact" | "typescriptreact" | "java" => {
            v.push("{@link".into());
            v.push("@param x".into());
            v.push("`".into());
            v.push("```".into());
        }
        "go" => {
            v.push("//go:generate".into());
            v.push("go:".into());
        }
        "php" => {
            v.push("<?php".into());
        }
        "ruby" => {
            v.push("=begin".into());
            v.push("=end".into());
        }
        _ => {}
    }
    v.push("harper:ignore".into());
    v
}
