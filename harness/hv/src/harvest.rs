//! Harvest of rule-reaching seed texts (S) and vocabulary (V) from the *current* tree:
//! every string literal under harper-core/src/linting and harper-core/src/patterns.

use crate::util::*;
use std::collections::BTreeSet;
use std::path::Path;

#[derive(Clone, Debug, Default)]
pub struct Harvest {
    /// Seed texts: literals of <= 200 chars (verbatim).
    pub seeds: Vec<String>,
    /// Vocabulary: distinct word-like items.
    pub vocab: Vec<String>,
    pub files: usize,
}

fn walk(dir: &Path, out: &mut Vec<std::path::PathBuf>) {
    let Ok(rd) = std::fs::read_dir(dir) else {
        return;
    };
    let mut ents: Vec<_> = rd.filter_map(|e| e.ok()).map(|e| e.path()).collect();
    ents.sort();
    for p in ents {
        if p.is_dir() {
            walk(&p, out);
        } else if p.extension().map(|e| e == "rs").unwrap_or(false) {
            out.push(p);
        }
    }
}

/// Extract the values of all string literals in Rust source text.
pub fn string_literals(src: &str) -> Vec<String> {
    let c: Vec<char> = src.chars().collect();
    let n = c.len();
    let mut i = 0;
    let mut out = vec![];
    while i < n {
        let ch = c[i];
        // comments
        if ch == '/' && i + 1 < n && c[i + 1] == '/' {
            while i < n && c[i] != '\n' {
                i += 1;
            }
            continue;
        }
        if ch == '/' && i + 1 < n && c[i + 1] == '*' {
            let mut depth = 1;
            i += 2;
            while i < n && depth > 0 {
                if c[i] == '/' && i + 1 < n && c[i + 1] == '*' {
                    depth += 1;
                    i += 2;
                } else if c[i] == '*' && i + 1 < n && c[i + 1] == '/' {
                    depth -= 1;
                    i += 2;
                } else {
                    i += 1;
                }
            }
            continue;
        }
        // raw strings
        if ch == 'r' && i + 1 < n && (c[i + 1] == '"' || c[i + 1] == '#') {
            let prev_ident = i > 0 && (c[i - 1].is_alphanumeric() || c[i - 1] == '_');
            if !prev_ident {
                let mut j = i + 1;
                let mut hashes = 0;
                while j < n && c[j] == '#' {
                    hashes += 1;
                    j += 1;
                }
                if j < n && c[j] == '"' {
                    j += 1;
                    let start = j;
                    let mut end = None;
                    while j < n {
                        if c[j] == '"' {
                            let mut k = 0;
                            while k < hashes && j + 1 + k < n && c[j + 1 + k] == '#' {
                                k += 1;
                            }
                            if k == hashes {
                                end = Some(j);
                                break;
                            }
                        }
                        j += 1;
                    }
                    if let Some(e) = end {
                        out.push(c[start..e].iter().collect());
                        i = e + 1 + hashes;
                        continue;
                    }
                }
            }
        }
        // char literals / lifetimes
        if ch == '\'' {
            // char literal: '\x', 'x'
            if i + 2 < n && c[i + 1] == '\\' {
                // escaped char literal: find closing quote
                let mut j = i + 2;
                while j < n && c[j] != '\'' && j < i + 12 {
                    j += 1;
                }
                i = j + 1;
                continue;
            }
            if i + 2 < n && c[i + 2] == '\'' {
                i += 3;
                continue;
            }
            i += 1;
            continue;
        }
        if ch == '"' {
            let mut j = i + 1;
            let mut s = String::new();
            let mut closed = false;
            while j < n {
                let d = c[j];
                if d == '"' {
                    closed = true;
                    break;
                }
                if d == '\\' && j + 1 < n {
                    let e = c[j + 1];
                    match e {
                        'n' => {
                            s.push('\n');
                            j += 2;
                        }
                        't' => {
                            s.push('\t');
                            j += 2;
                        }
                        'r' => {
                            s.push('\r');
                            j += 2;
                        }
                        '0' => {
                            s.push('\0');
                            j += 2;
                        }
                        '\\' => {
                            s.push('\\');
                            j += 2;
                        }
                        '"' => {
                            s.push('"');
                            j += 2;
                        }
                        '\'' => {
                            s.push('\'');
                            j += 2;
                        }
                        'x' if j + 3 < n => {
                            let h: String = c[j + 2..j + 4].iter().collect();
                            if let Ok(v) = u8::from_str_radix(&h, 16) {
                                s.push(v as char);
                            }
                            j += 4;
                        }
                        'u' if j + 2 < n && c[j + 2] == '{' => {
                            let mut k = j + 3;
                            let mut h = String::new();
                            while k < n && c[k] != '}' {
                                h.push(c[k]);
                                k += 1;
                            }
                            if let Some(v) =
                                u32::from_str_radix(&h.replace('_', ""), 16).ok().and_then(char::from_u32)
                            {
                                s.push(v);
                            }
                            j = k + 1;
                        }
                        '\n' => {
                            // line continuation: skip following whitespace
                            j += 2;
                            while j < n && c[j].is_whitespace() {
                                j += 1;
                            }
                        }
                        _ => {
                            s.push(e);
                            j += 2;
                        }
                    }
                    continue;
                }
                s.push(d);
                j += 1;
            }
            if closed {
                out.push(s);
                i = j + 1;
                continue;
            }
        }
        i += 1;
    }
    out
}

pub fn harvest() -> Harvest {
    let mut files = vec![];
    walk(
        Path::new(&format!("{REPO_ROOT}/harper-core/src/linting")),
        &mut files,
    );
    walk(
        Path::new(&format!("{REPO_ROOT}/harper-core/src/patterns")),
        &mut files,
    );
    let mut seeds = BTreeSet::new();
    let mut vocab = BTreeSet::new();
    for f in &files {
        let Ok(src) = std::fs::read_to_string(f) else {
            continue;
        };
        for lit in string_literals(&src) {
            if lit.is_empty() {
                continue;
            }
            let nchars = lit.chars().count();
            if nchars <= 200 {
                seeds.insert(lit.clone());
            }
            // words: maximal runs of alphabetic chars and inner apostrophes/hyphen-free
            let mut cur = String::new();
            for ch in lit.chars().chain(std::iter::once(' ')) {
                if ch.is_alphabetic() || ((ch == '\'' || ch == '’') && !cur.is_empty()) {
                    cur.push(ch);
                } else {
                    let w = cur.trim_end_matches(['\'', '’']).to_string();
                    if !w.is_empty() && w.chars().count() <= 24 {
                        vocab.insert(w);
                    }
                    cur.clear();
                }
            }
        }
    }
    // data-driven rule tables: canonical spellings of the proper-noun rule groups
    if let Ok(txt) = std::fs::read_to_string(format!("{REPO_ROOT}/harper-core/proper_noun_rules.json")) {
        if let Ok(v) = serde_json::from_str::<serde_json::Value>(&txt) {
            if let Some(o) = v.as_object() {
                for (_k, rule) in o {
                    if let Some(c) = rule["canonical"].as_array() {
                        // the first few of every group, verbatim and lower-cased
                        for s in c.iter().filter_map(|x| x.as_str()).take(6) {
                            seeds.insert(s.to_string());
                            seeds.insert(format!("We saw {} there.", s.to_lowercase()));
                        }
                    }
                }
            }
        }
    }
    for t in [
        "e.g", "etc", "vs", "et", "al", "1st", "2ND", "3rd", "isn't", "...", "i.e", "U.S.A", "1990s",
        "0x1F", "a@b.co", "http://a.co", "$5", "5%", "I", "x", "é", "😀", "世", "naïve", "O'Brien",
    ] {
        vocab.insert(t.to_string());
    }
    // deterministic order: shortlex
    let mut seeds: Vec<String> = seeds.into_iter().collect();
    seeds.sort_by(|a, b| (a.chars().count(), a).cmp(&(b.chars().count(), b)));
    let mut vocab: Vec<String> = vocab.into_iter().collect();
    vocab.sort_by(|a, b| (a.chars().count(), a).cmp(&(b.chars().count(), b)));
    Harvest {
        seeds,
        vocab,
        files: files.len(),
    }
}

pub fn harvest_path() -> String {
    format!("{VERIF_ROOT}/target/harvest.json")
}

pub fn save(h: &Harvest) {
    let _ = std::fs::create_dir_all(format!("{VERIF_ROOT}/target"));
    let v = serde_json::json!({"seeds": h.seeds, "vocab": h.vocab, "files": h.files});
    let p = harvest_path();
    let tmp = format!("{p}.{}.tmp", std::process::id());
    std::fs::write(&tmp, v.to_string()).unwrap();
    std::fs::rename(&tmp, &p).unwrap();
}

pub fn load() -> Harvest {
    let p = harvest_path();
    let Ok(t) = std::fs::read_to_string(&p) else {
        return harvest();
    };
    let v: serde_json::Value = serde_json::from_str(&t).unwrap_or_default();
    let get = |k: &str| -> Vec<String> {
        v[k].as_array()
            .map(|a| {
                a.iter()
                    .filter_map(|x| x.as_str().map(|s| s.to_string()))
                    .collect()
            })
            .unwrap_or_default()
    };
    Harvest {
        seeds: get("seeds"),
        vocab: get("vocab"),
        files: v["files"].as_u64().unwrap_or(0) as usize,
    }
}
