//! Registry of every front-end (document language) harper ships, including the way harper-ls
//! composes them (identifier collapsing, English isolation).

use crate::git_commit_parser::GitCommitParser;
use harper_comments::CommentParser;
use harper_core::parsers::{
    CollapseIdentifiers, IsolateEnglish, Markdown, MarkdownOptions, Parser, PlainEnglish,
};
use harper_core::{Dictionary, FstDictionary, MergedDictionary, Token};
use harper_html::HtmlParser;
use harper_literate_haskell::LiterateHaskellParser;
use harper_typst::Typst;
use std::sync::Arc;

pub const LANG_IDS: &[&str] = &[
    "rust",
    "typescriptreact",
    "typescript",
    "python",
    "nix",
    "javascript",
    "javascriptreact",
    "go",
    "c",
    "cpp",
    "cmake",
    "ruby",
    "swift",
    "csharp",
    "toml",
    "lua",
    "shellscript",
    "java",
    "haskell",
    "php",
    "dart",
    "scala",
];

#[derive(Clone, Copy, PartialEq, Eq, Debug)]
pub enum Class {
    Plain,
    Markdown,
    Html,
    Typst,
    Lhs,
    GitCommit,
    Comment,
}

pub enum Maker {
    Static(Box<dyn Parser>),
    /// The composition harper-ls performs for a language id: ident dictionary from the source,
    /// CollapseIdentifiers, optionally IsolateEnglish.
    Ls { lang: &'static str, isolate: bool },
}

pub struct FrontEnd {
    pub name: String,
    pub class: Class,
    pub lang: Option<&'static str>,
    pub maker: Maker,
}

pub enum P<'a> {
    Ref(&'a dyn Parser),
    Own(Box<dyn Parser>),
}

impl Parser for P<'_> {
    fn parse(&self, source: &[char]) -> Vec<Token> {
        match self {
            P::Ref(p) => p.parse(source),
            P::Own(p) => p.parse(source),
        }
    }
}

pub fn line_leader(lang: &str) -> &'static str {
    match lang {
        "python" | "nix" | "cmake" | "ruby" | "toml" | "shellscript" => "# ",
        "lua" | "haskell" => "-- ",
        _ => "// ",
    }
}

pub fn file_prefix(lang: &str) -> &'static str {
    match lang {
        "php" => "<?php\n",
        _ => "",
    }
}

impl FrontEnd {
    /// The parser and dictionary to use for `text`.
    pub fn prepare<'a>(
        &'a self,
        text: &[char],
        curated: &Arc<FstDictionary>,
    ) -> (P<'a>, Arc<MergedDictionary>) {
        let mut merged = MergedDictionary::new();
        merged.add_dictionary(curated.clone());
        match &self.maker {
            Maker::Static(p) => (P::Ref(p.as_ref()), Arc::new(merged)),
            Maker::Ls { lang, isolate } => {
                let md = MarkdownOptions::default();
                let mut parser: Box<dyn Parser>;
                let dict: Arc<MergedDictionary>;
                if *lang == "lhaskell" {
                    let p = LiterateHaskellParser::new_markdown(md);
                    if let Some(id) = p.create_ident_dict(text, md) {
                        merged.add_dictionary(Arc::new(id));
                        dict = Arc::new(merged);
                        parser = Box::new(CollapseIdentifiers::new(
                            Box::new(p),
                            Box::new(dict.clone() as Arc<dyn Dictionary>),
                        ));
                    } else {
                        dict = Arc::new(merged);
                        parser = Box::new(p);
                    }
                } else if let Some(p) = CommentParser::new_from_language_id(lang, md) {
                    if let Some(id) = p.create_ident_dict(text) {
                        merged.add_dictionary(Arc::new(id));
                        dict = Arc::new(merged);
                        parser = Box::new(CollapseIdentifiers::new(
                            Box::new(p),
                            Box::new(dict.clone() as Arc<dyn Dictionary>),
                        ));
                    } else {
                        dict = Arc::new(merged);
                        parser = Box::new(p);
                    }
                } else {
                    dict = Arc::new(merged);
                    parser = match *lang {
                        "markdown" => Box::new(Markdown::new(md)),
                        "plaintext" => Box::new(PlainEnglish),
                        "html" => Box::new(HtmlParser::default()),
                        "typst" => Box::new(Typst),
                        "gitcommit" => Box::new(GitCommitParser::new_markdown(md)),
                        _ => Box::new(PlainEnglish),
                    };
                }
                if *isolate {
                    parser = Box::new(IsolateEnglish::new(parser, dict.clone()));
                }
                (P::Own(parser), dict)
            }
        }
    }

    /// Place a piece of prose in this front-end's prose position.
    pub fn embed(&self, prose: &str) -> String {
        match self.class {
            Class::Plain | Class::Markdown | Class::Typst | Class::Lhs | Class::GitCommit => {
                prose.to_string()
            }
            Class::Html => format!("<p>{prose}</p>"),
            Class::Comment => {
                let lang = self.lang.unwrap_or("rust");
                let lead = line_leader(lang);
                let mut out = String::from(file_prefix(lang));
                for (i, l) in prose.split('\n').enumerate() {
                    if i > 0 {
                        out.push('\n');
                    }
                    out.push_str(lead);
                    out.push_str(l);
                }
                out
            }
        }
    }
}

pub fn md_opts(ignore_link_title: bool) -> MarkdownOptions {
    let mut o = MarkdownOptions::default();
    o.ignore_link_title = ignore_link_title;
    o
}

fn st(name: &str, class: Class, lang: Option<&'static str>, p: Box<dyn Parser>) -> FrontEnd {
    FrontEnd {
        name: name.to_string(),
        class,
        lang,
        maker: Maker::Static(p),
    }
}

/// All front-ends. Order is part of the deterministic enumeration.
pub fn all() -> Vec<FrontEnd> {
    let mut v = vec![];
    v.push(st("plain", Class::Plain, None, Box::new(PlainEnglish)));
    v.push(st(
        "markdown",
        Class::Markdown,
        None,
        Box::new(Markdown::new(md_opts(false))),
    ));
    v.push(st(
        "markdown+ignore_link_title",
        Class::Markdown,
        None,
        Box::new(Markdown::new(md_opts(true))),
    ));
    v.push(st("html", Class::Html, None, Box::new(HtmlParser::default())));
    v.push(st("typst", Class::Typst, None, Box::new(Typst)));
    v.push(st(
        "lhaskell",
        Class::Lhs,
        None,
        Box::new(LiterateHaskellParser::new_markdown(
            MarkdownOptions::default(),
        )),
    ));
    v.push(st(
        "gitcommit",
        Class::GitCommit,
        None,
        Box::new(GitCommitParser::new_markdown(MarkdownOptions::default())),
    ));
    for lang in LANG_IDS {
        let p = CommentParser::new_from_language_id(lang, MarkdownOptions::default())
            .expect("language id table");
        v.push(st(&format!("comment:{lang}"), Class::Comment, Some(lang), Box::new(p)));
    }
    // harper-ls compositions
    let curated = FstDictionary::curated();
    v.push(st(
        "plain+isolate",
        Class::Plain,
        None,
        Box::new(IsolateEnglish::new(Box::new(PlainEnglish), curated.clone())),
    ));
    v.push(st(
        "markdown+isolate",
        Class::Markdown,
        None,
        Box::new(IsolateEnglish::new(
            Box::new(Markdown::new(MarkdownOptions::default())),
            curated.clone(),
        )),
    ));
    for (lang, class) in [
        ("rust", Class::Comment),
        ("javascript", Class::Comment),
        ("python", Class::Comment),
        ("go", Class::Comment),
        ("java", Class::Comment),
        ("lhaskell", Class::Lhs),
    ] {
        v.push(FrontEnd {
            name: format!("ls:{lang}"),
            class,
            lang: if class == Class::Comment { Some(lang) } else { None },
            maker: Maker::Ls {
                lang,
                isolate: false,
            },
        });
    }
    v.push(FrontEnd {
        name: "ls:rust+isolate".into(),
        class: Class::Comment,
        lang: Some("rust"),
        maker: Maker::Ls {
            lang: "rust",
            isolate: true,
        },
    });
    v
}

pub fn by_name<'a>(fes: &'a [FrontEnd], name: &str) -> Option<&'a FrontEnd> {
    fes.iter().find(|f| f.name == name)
}

/// Guard against a language being added to harper-comments without a row here.
pub fn unknown_language_ids() -> Vec<String> {
    let src = std::fs::read_to_string("/repo/harper-comments/src/comment_parser.rs")
        .unwrap_or_default();
    let mut out = vec![];
    // the match arms in new_from_language_id look like:   "rust" => tree_sitter_rust::language(),
    for line in src.lines() {
        let l = line.trim();
        if l.starts_with('"') && l.contains("=> tree_sitter_") {
            if let Some(end) = l[1..].find('"') {
                let id = &l[1..1 + end];
                if !LANG_IDS.contains(&id) {
                    out.push(id.to_string());
                }
            }
        }
    }
    out
}
