//! Small-scope exhaustive checks of pure functions: the edit primitive (C03b), overlap removal
//! (C13), ordinal suffixes (C17), title-casing (C18).

use crate::pool::par_chunks;
use crate::spaces::Gen;
use crate::sweep::ref_apply;
use crate::util::*;
use harper_core::linting::{Lint, LintGroup, Linter, Suggestion};
use harper_core::{Dialect, Document, FstDictionary, Span, remove_overlaps};
use serde_json::{Value, json};
use std::collections::BTreeSet;

fn abc(l: usize, letters: &[&str]) -> Gen {
    Gen::Strings {
        atoms: letters.iter().map(|s| s.to_string()).collect(),
        max_len: l,
    }
}

// ------------------------------------------------------------------------------------- C03 (b)
/// All (text, span, suggestion) triples over a small alphabet against the reference splice.
pub fn c03_primitive(tier: Tier, report: &mut Report) {
    let texts = abc(tier.pick(6, 8), &["a", "b", "c"]);
    let reps = abc(3, &["x", "y"]);
    let mut sugs: Vec<Suggestion> = vec![Suggestion::Remove];
    for i in 0..reps.len() {
        let r: Vec<char> = reps.get(i).chars().collect();
        sugs.push(Suggestion::ReplaceWith(r.clone()));
        sugs.push(Suggestion::InsertAfter(r));
    }
    let n = texts.len();
    let results = par_chunks(n, 64, ncpu(), |s, e| {
        let mut evals = 0u64;
        let mut nontrivial = 0u64;
        let mut viols: Vec<Violation> = vec![];
        for ti in s..e {
            let text: Vec<char> = texts.get(ti).chars().collect();
            let len = text.len();
            for st in 0..=len {
                for en in st..=len {
                    for sg in &sugs {
                        evals += 1;
                        let expect = ref_apply(&text, st, en, sg);
                        let mut got = text.clone();
                        let r = catch(|| sg.apply(Span::new(st, en), &mut got));
                        let bad = match &r {
                            Err(_) => true,
                            Ok(()) => got != expect,
                        };
                        if expect != text {
                            nontrivial += 1;
                        }
                        if bad && viols.len() < 4 {
                            let kind = match sg {
                                Suggestion::Remove => "remove",
                                Suggestion::ReplaceWith(r) if r.len() == en - st => {
                                    "replace-equal-length"
                                }
                                Suggestion::ReplaceWith(_) => "replace",
                                Suggestion::InsertAfter(_) => "insert-after",
                            };
                            viols.push(Violation {
                                sig: format!("primitive:{kind}:{}", if r.is_err() { "panic" } else { "wrong-result" }),
                                case: json!({"engine":"E1","text": c2s(&text), "span": [st, en], "suggestion": sg.to_string()}),
                                detail: json!({"got": c2s(&got), "expected": c2s(&expect), "panic": r.err().map(|p| p.msg)}),
                            });
                        }
                    }
                }
            }
        }
        (evals, nontrivial, viols)
    });
    let mut evals = 0;
    let mut nt = 0;
    for (e, t, vs) in results {
        evals += e;
        nt += t;
        for v in vs {
            report.violation(v);
        }
    }
    report.set("primitive_triples", evals);
    report.set("primitive_triples_changing_text", nt);
    report.sample(json!({"engine":"E1","text":"abc","span":[1,2],"suggestion":"Replace with: “xy”"}));
}

// ------------------------------------------------------------------------------------- C13
fn mk_lint(start: usize, end: usize, tag: usize) -> Lint {
    Lint {
        span: Span { start, end },
        message: format!("t{tag}"),
        suggestions: vec![Suggestion::ReplaceWith(vec![char::from(b'A' + tag as u8)])],
        ..Default::default()
    }
}

/// Oracle for one overlap-removal call. `input` tagged by unique message.
pub fn check_overlap_result(input: &[Lint], output: &[Lint]) -> Option<(String, Value)> {
    // (1) sub-list: every output lint is identical to an input lint, each input used at most once
    let mut used = vec![false; input.len()];
    for o in output {
        let mut found = false;
        for (i, l) in input.iter().enumerate() {
            if !used[i] && l == o {
                used[i] = true;
                found = true;
                break;
            }
        }
        if !found {
            return Some(("output-not-a-sublist".into(), json!({"lint": crate::sweep::lint_json(o)})));
        }
    }
    // (2) no two outputs share a character
    for i in 0..output.len() {
        for j in i + 1..output.len() {
            let (a, b) = (output[i].span, output[j].span);
            // share a character <=> max(starts) < min(ends)
            if a.start.max(b.start) < a.end.min(b.end) {
                return Some((
                    "kept-lints-overlap".into(),
                    json!({"a": [a.start, a.end], "b": [b.start, b.end]}),
                ));
            }
        }
    }
    // (3) every dropped lint starts inside (or at the start of) a kept lint
    for (i, l) in input.iter().enumerate() {
        if used[i] {
            continue;
        }
        let s = l.span.start;
        let ok = output
            .iter()
            .any(|k| (k.span.start <= s && s < k.span.end) || s == k.span.start);
        if !ok {
            return Some((
                "dropped-lint-not-covered-by-kept".into(),
                json!({"dropped": [l.span.start, l.span.end]}),
            ));
        }
    }
    None
}

/// Applying all first suggestions back to front == applying them in list order with offset
/// bookkeeping (i.e. the edits do not interfere).
pub fn check_one_pass_fix(text: &[char], kept: &[Lint]) -> Option<(String, Value)> {
    let mut order: Vec<&Lint> = kept.iter().filter(|l| !l.suggestions.is_empty()).collect();
    if order.iter().any(|l| l.span.end > text.len() || l.span.start > l.span.end) {
        return None; // C03's business
    }
    // back to front
    order.sort_by_key(|l| std::cmp::Reverse((l.span.start, l.span.end)));
    let mut a = text.to_vec();
    for l in &order {
        a = ref_apply(&a, l.span.start, l.span.end, &l.suggestions[0]);
    }
    // reference: rebuild from the original text front to back using only original offsets
    let mut fwd: Vec<&Lint> = order.clone();
    fwd.reverse();
    let mut b: Vec<char> = vec![];
    let mut pos = 0usize;
    for l in &fwd {
        if l.span.start < pos {
            return Some(("edits-interfere".into(), json!({"span": [l.span.start, l.span.end], "pos": pos})));
        }
        b.extend(&text[pos..l.span.start]);
        match &l.suggestions[0] {
            Suggestion::ReplaceWith(r) => b.extend(r.iter()),
            Suggestion::InsertAfter(r) => {
                b.extend(&text[l.span.start..l.span.end]);
                b.extend(r.iter());
            }
            Suggestion::Remove => {}
        }
        pos = l.span.end;
    }
    b.extend(&text[pos..]);
    if a != b {
        return Some(("one-pass-fix-differs".into(), json!({"back_to_front": c2s(&a), "reference": c2s(&b)})));
    }
    None
}

pub fn c13(tier: Tier, report: &mut Report) {
    // all spans over positions 0..=P (incl. zero-width), all lists of length <= K
    let p = tier.pick(4, 5);
    let k = tier.pick(4, 6);
    let mut spans = vec![];
    for s in 0..=p {
        for e in s..=p {
            spans.push((s, e));
        }
    }
    let ns = spans.len() as u64;
    let mut total = 0u64;
    let mut pw = 1u64;
    let mut offs = vec![];
    for _ in 0..=k {
        offs.push(total);
        total += pw;
        pw *= ns;
    }
    let text: Vec<char> = "abcdefgh".chars().take(p).collect();
    let results = par_chunks(total, 50_000, ncpu(), |s, e| {
        let mut outcomes: BTreeSet<u64> = BTreeSet::new();
        let mut viols: Vec<Violation> = vec![];
        let mut nontrivial = 0u64;
        for idx in s..e {
            // decode list
            let mut l = 0usize;
            while l < k && idx >= offs[l + 1] {
                l += 1;
            }
            let mut r = idx - offs[l];
            let mut input: Vec<Lint> = Vec::with_capacity(l);
            for t in 0..l {
                let (a, b) = spans[(r % ns) as usize];
                r /= ns;
                input.push(mk_lint(a, b, t));
            }
            let mut out = input.clone();
            let res = catch(|| remove_overlaps(&mut out));
            if res.is_err() {
                viols.push(Violation {
                    sig: "synthetic:panic".into(),
                    case: json!({"engine":"E1","spans": input.iter().map(|l| [l.span.start, l.span.end]).collect::<Vec<_>>()}),
                    detail: json!({"panic": res.err().map(|p| p.msg)}),
                });
                continue;
            }
            if out.len() != input.len() {
                nontrivial += 1;
            }
            outcomes.insert(h64(&(input.len(), out.len())));
            let problem = check_overlap_result(&input, &out)
                .or_else(|| check_one_pass_fix(&text, &out));
            if let Some((sig, detail)) = problem {
                if viols.len() < 5 {
                    viols.push(Violation {
                        sig: format!("synthetic:{sig}"),
                        case: json!({"engine":"E1","spans": input.iter().map(|l| [l.span.start, l.span.end]).collect::<Vec<_>>()}),
                        detail: json!({"kept": out.iter().map(|l| [l.span.start, l.span.end]).collect::<Vec<_>>(), "problem": detail}),
                    });
                }
            }
        }
        (nontrivial, outcomes, viols)
    });
    let mut nt = 0;
    for (n, o, vs) in results {
        nt += n;
        report.outcomes.extend(o);
        for v in vs {
            report.violation(v);
        }
    }
    report.set("synthetic_lists", total);
    report.set("synthetic_lists_with_a_removal", nt);
    report.add("evaluations", total);
    report.add("distinct_nontrivial", nt);
    report.sample(json!({"engine":"E1","spans": [[0,3],[1,2],[2,4]], "note": "list of tagged lints by span"}));

    // real lint lists from documents
    let h = crate::harvest::harvest();
    let curated = FstDictionary::curated();
    let opts = crate::spaces::G3Opts {
        prefixes: true,
        suffixes: false,
        windows: 0,
        deletions: tier == Tier::Thorough,
        ends: vec!["".into()],
        second_order: false, ws_variants: vec![] };
    let docs = crate::spaces::g3(&h.seeds, &opts);
    let n = docs.len() as u64;
    let results = par_chunks(n, 2000, ncpu(), |s, e| {
        let mut g = crate::sweep::all_on(Dialect::American, curated.clone());
        let mut viols = vec![];
        let mut nontrivial = 0u64;
        let mut evals = 0u64;
        for i in s..e {
            let text = &docs[i as usize];
            let chars = s2c(text);
            let r = catch(|| {
                let doc = Document::new_plain_english_curated(text);
                g.lint(&doc)
            });
            let Ok(lints) = r else {
                g = crate::sweep::all_on(Dialect::American, curated.clone());
                continue;
            };
            evals += 1;
            let mut out = lints.clone();
            if catch(|| remove_overlaps(&mut out)).is_err() {
                viols.push(Violation {
                    sig: "real:panic".into(),
                    case: json!({"engine":"E1","text": text}),
                    detail: json!({}),
                });
                continue;
            }
            if out.len() != lints.len() {
                nontrivial += 1;
            }
            let problem =
                check_overlap_result(&lints, &out).or_else(|| check_one_pass_fix(&chars, &out));
            if let Some((sig, detail)) = problem {
                if viols.len() < 5 {
                    viols.push(Violation {
                        sig: format!("real:{sig}"),
                        case: json!({"engine":"E1","text": text}),
                        detail: json!({"lints": lints.iter().map(crate::sweep::lint_json).collect::<Vec<_>>(), "kept": out.iter().map(|l| [l.span.start, l.span.end]).collect::<Vec<_>>(), "problem": detail}),
                    });
                }
            }
        }
        (evals, nontrivial, viols)
    });
    let mut ev = 0;
    let mut nt2 = 0;
    for (e, n, vs) in results {
        ev += e;
        nt2 += n;
        for v in vs {
            report.violation(v);
        }
    }
    report.set("real_documents", ev);
    report.set("real_documents_with_a_removal", nt2);
    report.add("evaluations", ev);
    report.add("distinct_nontrivial", nt2);
    if let Some(d) = docs.iter().find(|d| d.len() > 20) {
        report.sample(json!({"engine":"E1","text": d}));
    }
}

// ------------------------------------------------------------------------------------- C17
fn ref_suffix(decimal: &str) -> &'static str {
    let b = decimal.as_bytes();
    let n = b.len();
    let last = b[n - 1] - b'0';
    let tens = if n >= 2 { b[n - 2] - b'0' } else { 0 };
    if tens == 1 && (1..=3).contains(&last) {
        return "th";
    }
    match last {
        1 => "st",
        2 => "nd",
        3 => "rd",
        _ => "th",
    }
}

pub fn c17_numbers(tier: Tier) -> Vec<u64> {
    let mut v: Vec<u64> = (0..tier.pick(100_000u64, 1_000_000u64)).collect();
    // structured family: every three-digit ending behind prefixes of every digit length up to 16
    let max = (1u64 << 53) - 1;
    let mut prefixes: BTreeSet<u64> = BTreeSet::new();
    let mut p10 = 1u64;
    for _k in 0..13 {
        prefixes.insert(p10);
        if p10 > 1 {
            prefixes.insert(p10 - 1);
        }
        prefixes.insert(9 * p10);
        p10 *= 10;
    }
    prefixes.insert(max / 1000);
    prefixes.insert(max / 1000 - 1);
    prefixes.insert(1990 / 1000 + 1); // 2xxx
    prefixes.insert(19);
    prefixes.insert(20);
    let step = tier.pick(1u64, 1u64);
    for p in prefixes {
        let mut e = 0;
        while e < 1000 {
            let n = p.saturating_mul(1000).saturating_add(e);
            if n <= max {
                v.push(n);
            }
            e += step;
        }
    }
    v.push(max);
    v.sort();
    v.dedup();
    v
}

pub fn c17(tier: Tier, report: &mut Report) {
    let nums = c17_numbers(tier);
    let suffixes = ["st", "nd", "rd", "th"];
    // frames: alone, mid-sentence, behind multi-byte text, and next to other numbers (a plain
    // number before it, correct ordinals before it, a number after it)
    let frames: Vec<(&str, &str)> = tier.pick(
        vec![("The ", " item."), ("", ""), ("É😀 ", "!"), ("In 2024 the ", " item of 3."), ("The 1st, 22nd and ", " ones.")],
        vec![("The ", " item."), ("", ""), ("On the ", ", we left."), ("É😀 ", "!"), ("In 2024 the ", " item of 3."), ("The 1st, 22nd and ", " ones."), ("5 or 6.5, the ", " of 0x1F")],
    );
    let curated = FstDictionary::curated();
    let n = nums.len() as u64;
    let results = par_chunks(n, 2000, ncpu(), |s, e| {
        let mut g = LintGroup::new_curated(curated.clone(), Dialect::American);
        g.set_all_rules_to(Some(false));
        g.config.set_rule_enabled("CorrectNumberSuffix", true);
        let mut evals = 0u64;
        let mut flagged = 0u64;
        let mut viols: Vec<Violation> = vec![];
        for i in s..e {
            let num = nums[i as usize];
            // numbers below 200 also written with one and two leading zeros (`01st`, `0011th`)
            let spellings: Vec<String> = if num < 200 { vec![num.to_string(), format!("0{num}"), format!("00{num}")] } else { vec![num.to_string()] };
            for dec in spellings {
            let want = ref_suffix(&dec);
            for sfx in suffixes {
                for case in 0..4 {
                    // letter-case variants: st St sT ST
                    let mut sc: Vec<char> = sfx.chars().collect();
                    if case & 1 != 0 {
                        sc[0] = sc[0].to_ascii_uppercase();
                    }
                    if case & 2 != 0 {
                        sc[1] = sc[1].to_ascii_uppercase();
                    }
                    let written: String = sc.iter().collect();
                    // all frames only for lower-case; other cases in the first frame
                    let nframes = if case == 0 { frames.len() } else { 1 };
                    for (pre, post) in frames.iter().take(nframes) {
                        evals += 1;
                        let text = format!("{pre}{dec}{written}{post}");
                        let chars = s2c(&text);
                        let r = catch(|| {
                            let doc = Document::new_plain_english_curated(&text);
                            g.lint(&doc)
                        });
                        let lints = match r {
                            Ok(l) => l,
                            Err(_) => continue,
                        };
                        let wrong = sfx != want;
                        let sfx_start = s2c(pre).len() + dec.len();
                        let mut problem: Option<(String, Value)> = None;
                        if wrong {
                            flagged += 1;
                            if lints.len() != 1 {
                                problem = Some(("wrong-suffix-not-reported".into(), json!({"lints": lints.len()})));
                            } else {
                                let l = &lints[0];
                                if (l.span.start, l.span.end) != (sfx_start, sfx_start + 2) {
                                    problem = Some(("span-not-the-two-suffix-letters".into(), json!({"span": [l.span.start, l.span.end], "expected": [sfx_start, sfx_start+2]})));
                                } else if l.suggestions.len() != 1 {
                                    problem = Some(("not-exactly-one-suggestion".into(), json!({"n": l.suggestions.len()})));
                                } else {
                                    let mut fixed = chars.clone();
                                    l.suggestions[0].apply(l.span, &mut fixed);
                                    let got: String = fixed[sfx_start..sfx_start + 2].iter().collect();
                                    if got.to_lowercase() != want || fixed.len() != chars.len() {
                                        problem = Some(("suggestion-is-not-the-correct-suffix".into(), json!({"fixed": c2s(&fixed), "want": want})));
                                    } else {
                                        let ft = c2s(&fixed);
                                        let again = catch(|| {
                                            let doc = Document::new_plain_english_curated(&ft);
                                            g.lint(&doc)
                                        });
                                        if let Ok(a) = again {
                                            if !a.is_empty() {
                                                problem = Some(("still-reported-after-fix".into(), json!({"fixed": ft})));
                                            }
                                        }
                                    }
                                }
                            }
                        } else if !lints.is_empty() {
                            problem = Some(("correct-suffix-reported".into(), json!({"lints": lints.iter().map(crate::sweep::lint_json).collect::<Vec<_>>() })));
                        }
                        if let Some((sig, detail)) = problem {
                            // cause class for the known decade finding: [12]dd0 + s…
                            let decade_like = dec.len() == 4
                                && (dec.starts_with('1') || dec.starts_with('2'))
                                && dec.ends_with('0')
                                && sfx == "st";
                            let cls = if decade_like { "decade-like" } else { "general" };
                            if viols.len() < 6 || decade_like {
                                viols.push(Violation {
                                    sig: format!("{sig}:{cls}"),
                                    case: json!({"engine":"E1","text": text, "number": dec, "suffix": written}),
                                    detail,
                                });
                            }
                        }
                    }
                }
            }
            }
        }
        (evals, flagged, viols)
    });
    let mut ev = 0;
    let mut fl = 0;
    for (e, f, vs) in results {
        ev += e;
        fl += f;
        for v in vs {
            report.violation(v);
        }
    }
    report.set("numbers", n);
    report.set("largest_number", *nums.last().unwrap());
    report.add("evaluations", ev);
    report.add("distinct_nontrivial", fl);
    report.outcomes.insert(1);
    report.outcomes.insert(2);
    report.sample(json!({"engine":"E1","text":"The 112nd item.","number":"112","suffix":"nd"}));
    report.sample(json!({"engine":"E1","text": format!("É😀 {}St!", nums.last().unwrap())}));
}

// ------------------------------------------------------------------------------------- C18
pub fn c18_tokens() -> Vec<&'static str> {
    vec![
        "a", "the", "about", "is", "and", "iPhone", "macOS", "o’clock", "McDonald’s", "USA", "é",
        "naïve", "x-ray", "3rd", "2", ",", ":", "\"", "(", "-", "QUICK", "GUIDE",
    ]
}

fn join_tokens(toks: &[&str]) -> String {
    let mut s = String::new();
    for (i, t) in toks.iter().enumerate() {
        let punct = matches!(*t, "," | ":" | "-");
        if i > 0 && !punct {
            s.push(' ');
        }
        s.push_str(t);
    }
    s
}

pub fn check_title_case(text: &str, dict: &FstDictionary) -> Option<(String, Value)> {
    use harper_core::parsers::PlainEnglish;
    let r = catch(|| harper_core::make_title_case_str(text, &PlainEnglish, dict));
    let out = match r {
        Err(p) => return Some(("panic".into(), json!({"msg": p.msg, "at": format!("{}:{}", short_file(&p.file), p.line)}))),
        Ok(o) => o,
    };
    let a: Vec<char> = text.chars().collect();
    let b: Vec<char> = out.chars().collect();
    if a.len() != b.len() {
        return Some(("length-changed".into(), json!({"out": out})));
    }
    for (i, (x, y)) in a.iter().zip(b.iter()).enumerate() {
        if x == y {
            continue;
        }
        let same_letter = x.to_lowercase().eq(y.to_lowercase())
            || x.to_uppercase().eq(y.to_uppercase());
        let apostrophe = (*x == '’' && *y == '\'') || (*x == '\'' && *y == '’');
        if !same_letter && !apostrophe {
            return Some(("non-case-change".into(), json!({"out": out, "at": i})));
        }
    }
    // first word-like token starting with an ASCII letter starts upper-case
    let doc = Document::new(text, &PlainEnglish, dict);
    if let Some(t) = doc.get_tokens().iter().find(|t| t.kind.is_word_like()) {
        let c0 = a[t.span.start];
        if c0.is_ascii_alphabetic() && !b[t.span.start].is_uppercase() {
            return Some(("first-word-not-capitalised".into(), json!({"out": out})));
        }
    }
    let again = catch(|| harper_core::make_title_case_str(&out, &PlainEnglish, dict));
    match again {
        Err(p) => Some(("panic-on-second-application".into(), json!({"msg": p.msg}))),
        Ok(o2) if o2 != out => Some(("not-idempotent".into(), json!({"once": out, "twice": o2}))),
        _ => None,
    }
}

pub fn c18(tier: Tier, report: &mut Report) {
    let toks = c18_tokens();
    let k = toks.len() as u64;
    let maxlen = tier.pick(4, 6);
    let mut total = 0u64;
    let mut pw = 1u64;
    let mut offs = vec![];
    for _ in 0..=maxlen {
        offs.push(total);
        total += pw;
        pw *= k;
    }
    let h = crate::harvest::harvest();
    let seeds: Vec<String> = h
        .seeds
        .iter()
        .filter(|s| !s.contains('\n'))
        .cloned()
        .collect();
    let curated = FstDictionary::curated();
    // every cased/alphabetic Unicode scalar value at the start, inside and at the end of a word
    // (multi-character case mappings, title-case digraphs, ligatures, astral letters)
    let mut charfam: Vec<String> = vec![];
    for cp in 0x80u32..=0x1FFFF {
        let Some(c) = char::from_u32(cp) else { continue };
        if !(c.is_alphabetic()) {
            continue;
        }
        let special = c.to_uppercase().count() != 1
            || c.to_lowercase().count() != 1
            || c.to_uppercase().next() != Some(c)
            || c.to_lowercase().next() != Some(c);
        if !special && tier == Tier::Quick {
            continue; // uncased letters only in the thorough tier
        }
        charfam.push(format!("{c}ab"));
        charfam.push(format!("the a{c}b of"));
        charfam.push(format!("ab{c} and"));
    }
    // every proper noun of the dictionary (title-casing copies its listed capitalisation over the
    // word) in every spelling that may still resolve to the entry: lower, UPPER, listed, inverted
    // case, typographic ligatures for fi/fl/ff/ffi/ffl/st, curly apostrophe — mid-title and first
    {
        use harper_core::Dictionary;
        let mut nouns: Vec<String> = curated
            .words_iter()
            .filter(|w| curated.get_word_metadata(w).map(|m| m.is_proper_noun()).unwrap_or(false))
            .filter(|w| w.iter().all(|c| c.is_alphabetic() || *c == '\''))
            .map(|w| w.iter().collect::<String>())
            .collect();
        nouns.sort();
        for w in nouns.iter() {
            let lower = w.to_lowercase();
            let mut vars: Vec<String> = vec![lower.clone(), w.to_uppercase(), w.clone()];
            vars.push(w.chars().map(|c| if c.is_uppercase() { c.to_lowercase().next().unwrap() } else { c.to_uppercase().next().unwrap() }).collect());
            for (from, to) in [("ffi", "ﬃ"), ("ffl", "ﬄ"), ("ff", "ﬀ"), ("fi", "ﬁ"), ("fl", "ﬂ"), ("st", "ﬆ")] {
                if lower.contains(from) {
                    vars.push(lower.replacen(from, to, 1));
                }
            }
            if w.contains('\'') {
                vars.push(w.replace('\'', "’"));
                vars.push(lower.replace('\'', "’"));
            }
            for v in vars {
                charfam.push(format!("crossing the {v} ocean"));
                charfam.push(format!("{v} is near"));
            }
        }
    }
    // every dictionary word, lower-cased and as listed, inside a title (derived forms of proper
    // nouns, words whose affix rewrites the end of a capitalised stem)
    {
        use harper_core::Dictionary;
        for w in curated.words_iter() {
            if !w.iter().all(|c| c.is_alphabetic() || *c == '\'') {
                continue;
            }
            let listed: String = w.iter().collect();
            let lower = listed.to_lowercase();
            charfam.push(format!("the {lower} win again"));
            if lower != listed {
                charfam.push(format!("the {listed} win again"));
            }
        }
    }
    let nchar = charfam.len() as u64;
    let n = total + seeds.len() as u64 + nchar;
    let results = par_chunks(n, 5000, ncpu(), |s, e| {
        let mut viols: Vec<Violation> = vec![];
        let mut changed = 0u64;
        let mut outcomes = BTreeSet::new();
        for idx in s..e {
            let text = if idx >= total + seeds.len() as u64 {
                charfam[(idx - total - seeds.len() as u64) as usize].clone()
            } else if idx < total {
                let mut l = 0usize;
                while l < maxlen && idx >= offs[l + 1] {
                    l += 1;
                }
                let mut r = idx - offs[l];
                let mut ts = vec![];
                for _ in 0..l {
                    ts.push(toks[(r % k) as usize]);
                    r /= k;
                }
                join_tokens(&ts)
            } else {
                seeds[(idx - total) as usize].clone()
            };
            let res = check_title_case(&text, &curated);
            if let Some((sig, detail)) = res {
                if viols.len() < 8 {
                    viols.push(Violation {
                        sig,
                        case: json!({"engine":"E1","text": text}),
                        detail,
                    });
                }
            } else {
                use harper_core::parsers::PlainEnglish;
                let out = harper_core::make_title_case_str(&text, &PlainEnglish, &*curated);
                if out != text {
                    changed += 1;
                }
                // the JS-facing entry point is the same function
                if idx >= total && idx < total + seeds.len() as u64 && harper_wasm::to_title_case(text.clone()) != out && viols.len() < 8 {
                    viols.push(Violation { sig: "js-entry-point-differs".into(), case: json!({"engine":"E1","text": text}), detail: json!({"core": out}) });
                }
                outcomes.insert(h64(&(out != text, out.chars().filter(|c| c.is_uppercase()).count().min(6))));
            }
        }
        (changed, outcomes, viols)
    });
    let mut ch = 0;
    for (c, o, vs) in results {
        ch += c;
        report.outcomes.extend(o);
        for v in vs {
            report.violation(v);
        }
    }
    report.add("evaluations", n);
    report.add("distinct_nontrivial", ch);
    report.set("token_sequences", total);
    report.set("seed_sentences", seeds.len() as u64);
    report.set("unicode_letter_and_proper_noun_cases", nchar);
    report.sample(json!({"engine":"E1","text": "the iPhone and o’clock: x-ray"}));
    report.sample(json!({"engine":"E1","text": seeds.get(700).cloned().unwrap_or_default()}));
}

pub fn replay_c13(case: &Value) -> Vec<(String, Value)> {
    if let Some(spans) = case["spans"].as_array() {
        let input: Vec<Lint> = spans.iter().enumerate().map(|(i, s)| mk_lint(s[0].as_u64().unwrap_or(0) as usize, s[1].as_u64().unwrap_or(0) as usize, i)).collect();
        let mut out = input.clone();
        if catch(|| remove_overlaps(&mut out)).is_err() {
            return vec![("synthetic:panic".into(), json!({}))];
        }
        let text: Vec<char> = "abcdefgh".chars().collect();
        return check_overlap_result(&input, &out).or_else(|| check_one_pass_fix(&text, &out)).into_iter().collect();
    }
    if let Some(text) = case["text"].as_str() {
        let curated = FstDictionary::curated();
        let mut g = crate::sweep::all_on(Dialect::American, curated);
        let doc = Document::new_plain_english_curated(text);
        let lints = g.lint(&doc);
        let mut out = lints.clone();
        remove_overlaps(&mut out);
        return check_overlap_result(&lints, &out).or_else(|| check_one_pass_fix(&s2c(text), &out)).into_iter().collect();
    }
    vec![("bad-replay-file".into(), json!({}))]
}

pub fn replay_c18(case: &Value) -> Vec<(String, Value)> {
    let Some(text) = case["text"].as_str() else { return vec![("bad-replay-file".into(), json!({}))] };
    check_title_case(text, &FstDictionary::curated()).into_iter().collect()
}
