//! Shared plumbing: tiers, evidence, known findings, replay artefacts, panic capture.

use serde_json::{Value, json};
use std::cell::RefCell;
use std::collections::{BTreeMap, BTreeSet};
use std::hash::{Hash, Hasher};
use std::path::PathBuf;
use std::time::Instant;

#[derive(Clone, Copy, PartialEq, Eq, Debug)]
pub enum Tier {
    Quick,
    Thorough,
}

impl Tier {
    pub fn name(self) -> &'static str {
        match self {
            Tier::Quick => "quick",
            Tier::Thorough => "thorough",
        }
    }
    pub fn parse(s: &str) -> Option<Tier> {
        match s {
            "quick" => Some(Tier::Quick),
            "thorough" => Some(Tier::Thorough),
            _ => None,
        }
    }
    /// pick(quick, thorough)
    pub fn pick<T>(self, q: T, t: T) -> T {
        match self {
            Tier::Quick => q,
            Tier::Thorough => t,
        }
    }
}

pub const VERIF_ROOT: &str = "/verif";
pub const REPO_ROOT: &str = "/repo";

pub fn seed() -> i64 {
    std::env::var("VERIF_SEED")
        .ok()
        .and_then(|s| s.parse().ok())
        .unwrap_or(0)
}

pub fn ncpu() -> usize {
    std::env::var("VERIF_JOBS")
        .ok()
        .and_then(|s| s.parse().ok())
        .unwrap_or_else(|| {
            std::thread::available_parallelism()
                .map(|n| n.get())
                .unwrap_or(4)
                .min(16)
        })
}

pub fn h64<T: Hash + ?Sized>(t: &T) -> u64 {
    // Deterministic across processes (SipHash with fixed keys).
    #[allow(deprecated)]
    let mut h = std::hash::SipHasher::new_with_keys(0x7665_7269, 0x6668_6172);
    t.hash(&mut h);
    h.finish()
}

// ---------------------------------------------------------------------------------------------
// Panic capture

#[derive(Clone, Debug, Default)]
pub struct PanicInfo {
    pub file: String,
    pub line: u32,
    pub msg: String,
}

thread_local! {
    static LAST_PANIC: RefCell<Option<PanicInfo>> = const { RefCell::new(None) };
}

/// Install a quiet panic hook that records location and message per thread.
pub fn install_panic_hook() {
    std::panic::set_hook(Box::new(|info| {
        let (file, line) = info
            .location()
            .map(|l| (l.file().to_string(), l.line()))
            .unwrap_or_default();
        let msg = if let Some(s) = info.payload().downcast_ref::<&str>() {
            s.to_string()
        } else if let Some(s) = info.payload().downcast_ref::<String>() {
            s.clone()
        } else {
            "<non-string panic>".to_string()
        };
        LAST_PANIC.with(|p| *p.borrow_mut() = Some(PanicInfo { file, line, msg }));
    }));
}

pub fn take_panic() -> PanicInfo {
    LAST_PANIC
        .with(|p| p.borrow_mut().take())
        .unwrap_or_default()
}

/// Run `f`, catching a panic and returning where it happened.
pub fn catch<R>(f: impl FnOnce() -> R) -> Result<R, PanicInfo> {
    match std::panic::catch_unwind(std::panic::AssertUnwindSafe(f)) {
        Ok(r) => Ok(r),
        Err(_) => Err(take_panic()),
    }
}

/// Strip digits and quoted material from a panic message so the same call site groups.
pub fn msg_class(msg: &str) -> String {
    let mut out = String::new();
    let mut in_quote = false;
    for c in msg.chars().take(160) {
        if c == '"' {
            in_quote = !in_quote;
            continue;
        }
        if in_quote {
            continue;
        }
        if c.is_ascii_digit() {
            if !out.ends_with('N') {
                out.push('N');
            }
        } else if c == '\n' {
            break;
        } else {
            out.push(c);
        }
    }
    out.chars().take(60).collect()
}

pub fn short_file(f: &str) -> String {
    // "/repo/harper-core/src/span.rs" -> "harper-core/src/span.rs"; registry crates -> crate/file
    if let Some(r) = f.strip_prefix("/repo/") {
        return r.to_string();
    }
    if let Some(i) = f.find("/registry/src/") {
        let rest = &f[i + 14..];
        if let Some(j) = rest.find('/') {
            return format!("dep:{}", &rest[j + 1..]);
        }
    }
    f.to_string()
}

pub fn panic_sig(p: &PanicInfo) -> String {
    format!("panic@{}:{}", short_file(&p.file), msg_class(&p.msg))
}

// ---------------------------------------------------------------------------------------------
// Violations, known findings

#[derive(Clone, Debug)]
pub struct Violation {
    /// Stable cause signature (what known-findings match on).
    pub sig: String,
    /// Replayable description of the case.
    pub case: Value,
    /// What was observed / expected.
    pub detail: Value,
}

#[derive(Clone, Debug)]
pub struct KnownFinding {
    pub property: String,
    pub finding: String,
    pub sig_prefix: String,
    pub what: String,
}

/// Parse /verif/known_findings.txt. Lines:
///   open: property=C06 finding=F22 sig=<prefix> <what fails>
///   fixed: property=C01 <commit> <what failed>
/// `fixed:` lines suppress nothing.
pub fn load_known_findings(property: &str) -> Vec<KnownFinding> {
    let path = format!("{VERIF_ROOT}/known_findings.txt");
    let Ok(text) = std::fs::read_to_string(&path) else {
        return vec![];
    };
    let mut out = vec![];
    for line in text.lines() {
        let line = line.trim();
        let Some(rest) = line.strip_prefix("open:") else {
            continue;
        };
        let mut prop = String::new();
        let mut finding = String::new();
        let mut sig = String::new();
        let mut what = vec![];
        for w in rest.split_whitespace() {
            if let Some(v) = w.strip_prefix("property=") {
                if prop.is_empty() {
                    prop = v.to_string();
                    continue;
                }
            }
            if let Some(v) = w.strip_prefix("finding=") {
                if finding.is_empty() {
                    finding = v.to_string();
                    continue;
                }
            }
            if let Some(v) = w.strip_prefix("sig=") {
                if sig.is_empty() {
                    sig = v.to_string();
                    continue;
                }
            }
            what.push(w);
        }
        if prop == property && !sig.is_empty() {
            out.push(KnownFinding {
                property: prop,
                finding,
                sig_prefix: sig,
                what: what.join(" "),
            });
        }
    }
    out
}

// ---------------------------------------------------------------------------------------------
// Report: collects everything a check run produces, writes evidence, prints the verdict.

pub struct Report {
    pub property: String,
    pub tier: Tier,
    pub level: &'static str,
    pub start: Instant,
    pub coverage: BTreeMap<String, Value>,
    pub assumptions: Vec<String>,
    pub samples: Vec<Value>,
    /// signature -> (count, first violation)
    pub violations: BTreeMap<String, (u64, Violation)>,
    pub outcomes: BTreeSet<u64>,
    pub machinery_errors: Vec<String>,
}

impl Report {
    pub fn new(property: &str, tier: Tier, level: &'static str) -> Self {
        Self {
            property: property.to_string(),
            tier,
            level,
            start: Instant::now(),
            coverage: BTreeMap::new(),
            assumptions: vec![],
            samples: vec![],
            violations: BTreeMap::new(),
            outcomes: BTreeSet::new(),
            machinery_errors: vec![],
        }
    }

    pub fn set(&mut self, key: &str, v: impl Into<Value>) {
        self.coverage.insert(key.to_string(), v.into());
    }

    pub fn add(&mut self, key: &str, n: u64) {
        let cur = self.coverage.get(key).and_then(|v| v.as_u64()).unwrap_or(0);
        self.coverage.insert(key.to_string(), json!(cur + n));
    }

    pub fn get(&self, key: &str) -> u64 {
        self.coverage.get(key).and_then(|v| v.as_u64()).unwrap_or(0)
    }

    pub fn sample(&mut self, v: Value) {
        if self.samples.len() < 6 {
            self.samples.push(v);
        }
    }

    pub fn violation(&mut self, v: Violation) {
        self.violation_n(v, 1)
    }

    pub fn violation_n(&mut self, v: Violation, n: u64) {
        // single-case replay by deterministic re-enumeration: only the recorded case counts
        if let Ok(target) = std::env::var("HV_REPLAY_CASE") {
            if v.case.to_string() != target {
                return;
            }
        }
        let e = self
            .violations
            .entry(v.sig.clone())
            .or_insert_with(|| (0, v.clone()));
        e.0 += n;
        // keep the shortest case description as representative
        if v.case.to_string().len() < e.1.case.to_string().len() {
            e.1 = v;
        }
    }

    pub fn assume(&mut self, s: &str) {
        self.assumptions.push(s.to_string());
    }

    pub fn machinery(&mut self, s: impl Into<String>) {
        self.machinery_errors.push(s.into());
    }

    /// Write evidence, replay files, print verdict lines; returns the process exit code.
    pub fn finish(mut self) -> i32 {
        let known = load_known_findings(&self.property);
        let mut unknown: Vec<(String, u64, Violation)> = vec![];
        let mut known_hits: BTreeMap<String, (KnownFinding, u64, Violation)> = BTreeMap::new();
        for (sig, (n, v)) in &self.violations {
            if let Some(k) = known.iter().find(|k| glob_prefix(&k.sig_prefix, sig)) {
                let e = known_hits
                    .entry(k.finding.clone())
                    .or_insert_with(|| (k.clone(), 0, v.clone()));
                e.1 += n;
            } else {
                unknown.push((sig.clone(), *n, v.clone()));
            }
        }

        let wall = self.start.elapsed().as_secs_f64();
        let n_out = self.outcomes.len() as u64;
        self.coverage
            .insert("distinct_outcomes".into(), json!(n_out));
        self.coverage
            .insert("samples".into(), Value::Array(self.samples.clone()));
        self.coverage.insert(
            "known_findings_hit".into(),
            json!(
                known_hits
                    .iter()
                    .map(|(f, (_, n, v))| json!({"finding": f, "cases": n, "example": v.case}))
                    .collect::<Vec<_>>()
            ),
        );
        if !self.machinery_errors.is_empty() {
            self.coverage
                .insert("machinery_errors".into(), json!(self.machinery_errors));
        }
        let ev = json!({
            "property_id": self.property,
            "tier": self.tier.name(),
            "seed": seed(),
            "level": self.level,
            "coverage": self.coverage,
            "assumptions": self.assumptions,
            "wall_s": (wall * 1000.0).round() / 1000.0,
            "violations": unknown.len(),
        });
        // VERIF_EVIDENCE_DIR / VERIF_REPLAY_DIR redirect the output of a background run
        let evdir = std::env::var("VERIF_EVIDENCE_DIR").unwrap_or_else(|_| format!("{VERIF_ROOT}/evidence"));
        let _ = std::fs::create_dir_all(&evdir);
        let evpath = format!("{evdir}/{}.json", self.property);
        let tmp = format!("{evpath}.tmp");
        std::fs::write(&tmp, serde_json::to_string_pretty(&ev).unwrap()).unwrap();
        std::fs::rename(&tmp, &evpath).unwrap();

        for (_f, (k, n, _v)) in &known_hits {
            println!(
                "KNOWN-FINDING: property={} {} [{}; {} case(s) this run]",
                self.property, k.what, k.finding, n
            );
        }

        if !self.machinery_errors.is_empty() {
            for e in &self.machinery_errors {
                eprintln!("MACHINERY: {e}");
            }
            return 2;
        }

        if unknown.is_empty() {
            println!(
                "OK property={} tier={} wall={:.1}s {}",
                self.property,
                self.tier.name(),
                wall,
                summary_line(&ev["coverage"])
            );
            return 0;
        }

        let rbase = std::env::var("VERIF_REPLAY_DIR").unwrap_or_else(|_| format!("{VERIF_ROOT}/replays"));
        let rdir = PathBuf::from(format!("{rbase}/{}", self.property));
        let _ = std::fs::create_dir_all(&rdir);
        for (i, (sig, n, v)) in unknown.iter().enumerate() {
            if i >= 25 {
                println!(
                    "... {} further violation signatures not written out",
                    unknown.len() - 25
                );
                break;
            }
            let mut path = rdir.join(format!("{i}.json"));
            if let Ok(orig) = std::env::var("HV_REPLAY_PATH") {
                path = PathBuf::from(orig); // replaying: the artefact already exists
            }
            let body = json!({
                "property": self.property,
                "signature": sig,
                "cases_with_this_signature": n,
                "tier": self.tier.name(),
                "case": v.case,
                "detail": v.detail,
            });
            if std::env::var("HV_REPLAY_PATH").is_err() {
                std::fs::write(&path, serde_json::to_string_pretty(&body).unwrap()).unwrap();
            }
            println!(
                "VIOLATION property={} replay={}",
                self.property,
                path.display()
            );
            println!("  signature: {sig}  ({n} case(s))");
            let c = v.case.to_string();
            println!("  case: {}", c.chars().take(300).collect::<String>());
            let d = v.detail.to_string();
            println!("  detail: {}", d.chars().take(400).collect::<String>());
        }
        1
    }
}

/// `pat` matches a prefix of `s`; `*` in `pat` matches any run of characters.
pub fn glob_prefix(pat: &str, s: &str) -> bool {
    let parts: Vec<&str> = pat.split('*').collect();
    let mut pos = 0usize;
    for (i, part) in parts.iter().enumerate() {
        if i == 0 {
            if !s.starts_with(part) {
                return false;
            }
            pos = part.len();
        } else if part.is_empty() {
            continue;
        } else {
            match s[pos..].find(part) {
                Some(j) => pos += j + part.len(),
                None => return false,
            }
        }
    }
    true
}

fn summary_line(cov: &Value) -> String {
    let mut parts = vec![];
    for k in [
        "evaluations",
        "distinct_nontrivial",
        "states",
        "transitions",
        "traces_validated_against_impl",
        "distinct_outcomes",
        "exhaustive",
    ] {
        if let Some(v) = cov.get(k) {
            parts.push(format!("{k}={v}"));
        }
    }
    parts.join(" ")
}

pub fn s2c(s: &str) -> Vec<char> {
    s.chars().collect()
}
pub fn c2s(c: &[char]) -> String {
    c.iter().collect()
}
