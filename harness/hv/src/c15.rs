//! C15 — dictionary back-ends agree; fuzzy search is sound (engine E1, small-scope exhaustive).

use crate::pool::par_chunks;
use crate::spaces::Gen;
use crate::util::*;
use harper_core::{
    CharString, Dictionary, FstDictionary, MergedDictionary, MutableDictionary, WordId,
    WordMetadata,
};
use serde_json::{Value, json};
use std::collections::{BTreeMap, BTreeSet};
use std::sync::Arc;

pub fn lev(a: &[char], b: &[char]) -> usize {
    let (n, m) = (a.len(), b.len());
    let mut d = vec![vec![0usize; m + 1]; n + 1];
    for i in 0..=n {
        d[i][0] = i;
    }
    for j in 0..=m {
        d[0][j] = j;
    }
    for i in 1..=n {
        for j in 1..=m {
            let c = if a[i - 1] == b[j - 1] { 0 } else { 1 };
            d[i][j] = (d[i - 1][j] + 1).min(d[i][j - 1] + 1).min(d[i - 1][j - 1] + c);
        }
    }
    d[n][m]
}

fn norm(q: &[char]) -> Vec<char> {
    q.iter()
        .map(|c| match c {
            '’' | '‘' | '＇' => '\'',
            c => *c,
        })
        .collect()
}
fn lower(q: &[char]) -> Vec<char> {
    q.iter().flat_map(|c| c.to_lowercase()).collect()
}

fn meta_for(i: usize) -> WordMetadata {
    let mut m = WordMetadata::default();
    m.determiner = i & 1 != 0;
    m.preposition = i & 2 != 0;
    m.common = i & 4 != 0;
    m.swear = if i & 8 != 0 { Some(true) } else { None };
    m
}

struct Built {
    fst: FstDictionary,
    mutable: MutableDictionary,
    merged: Vec<(String, MergedDictionary)>,
}

fn build(words: &[(Vec<char>, WordMetadata)]) -> Built {
    let cs: Vec<(CharString, WordMetadata)> = words
        .iter()
        .map(|(w, m)| (w.iter().copied().collect::<CharString>(), m.clone()))
        .collect();
    let fst = FstDictionary::new(cs.clone());
    let mut mutable = MutableDictionary::new();
    mutable.extend_words(cs.iter().cloned());
    let mut merged = vec![];
    let n = words.len();
    for mask in 0..(1u32 << n) {
        let mut a = MutableDictionary::new();
        let mut b = MutableDictionary::new();
        for (i, w) in cs.iter().enumerate() {
            if mask & (1 << i) != 0 {
                b.extend_words(std::iter::once(w.clone()));
            } else {
                a.extend_words(std::iter::once(w.clone()));
            }
        }
        let mut m = MergedDictionary::new();
        // alternate child kinds so that merged(FST, mutable) is covered too
        if mask % 2 == 0 {
            let fa: FstDictionary = a.into();
            m.add_dictionary(Arc::new(fa));
        } else {
            m.add_dictionary(Arc::new(a));
        }
        m.add_dictionary(Arc::new(b));
        merged.push((format!("merged[{mask:b}]"), m));
    }
    Built { fst, mutable, merged }
}

#[derive(PartialEq, Debug, Clone)]
struct Exact {
    contains: bool,
    contains_str: bool,
    exact: bool,
    exact_str: bool,
    meta: Option<WordMetadata>,
    meta_str: Option<WordMetadata>,
    cap: Option<Vec<char>>,
    from_id: Option<Vec<char>>,
}

fn ask(d: &dyn Dictionary, q: &[char]) -> Exact {
    let qs: String = q.iter().collect();
    Exact {
        contains: d.contains_word(q),
        contains_str: d.contains_word_str(&qs),
        exact: d.contains_exact_word(q),
        exact_str: d.contains_exact_word_str(&qs),
        meta: d.get_word_metadata(q).cloned(),
        meta_str: d.get_word_metadata_str(&qs).cloned(),
        cap: d.get_correct_capitalization_of(q).map(|c| c.to_vec()),
        from_id: d.get_word_from_id(&WordId::from_word_chars(q)).map(|c| c.to_vec()),
    }
}

fn check_fuzzy(
    name: &str,
    d: &dyn Dictionary,
    words: &BTreeSet<Vec<char>>,
    q: &[char],
    bound: u8,
    cap: usize,
    complete: bool,
) -> Option<(String, Value)> {
    let r = catch(|| {
        d.fuzzy_match(q, bound, cap)
            .into_iter()
            .map(|r| (r.word.to_vec(), r.edit_distance))
            .collect::<Vec<_>>()
    });
    let res = match r {
        Ok(r) => r,
        Err(p) => {
            return Some((format!("fuzzy-panic:{name}"), json!({"msg": p.msg, "at": format!("{}:{}", short_file(&p.file), p.line)})));
        }
    };
    let nq = norm(q);
    let lq = lower(&nq);
    if res.len() > cap {
        return Some((format!("fuzzy-cap-exceeded:{name}"), json!({"n": res.len()})));
    }
    let mut prev = 0u8;
    let mut seen = BTreeSet::new();
    for (w, dist) in &res {
        if !words.contains(w) {
            return Some((format!("fuzzy-result-not-a-member:{name}"), json!({"word": c2s(w)})));
        }
        let d1 = lev(&nq, w);
        let d2 = lev(&lq, w);
        if *dist as usize != d1 && *dist as usize != d2 {
            return Some((format!("fuzzy-distance-not-true:{name}"), json!({"word": c2s(w), "reported": dist, "to_query": d1, "to_lowercase": d2})));
        }
        if *dist > bound {
            return Some((format!("fuzzy-distance-above-bound:{name}"), json!({"word": c2s(w), "reported": dist})));
        }
        if *dist < prev {
            return Some((format!("fuzzy-not-sorted:{name}"), json!({"results": res.iter().map(|(w,d)| (c2s(w), *d)).collect::<Vec<_>>() })));
        }
        prev = *dist;
        seen.insert(w.clone());
    }
    if complete && nq == lq {
        let brute: BTreeSet<Vec<char>> = words
            .iter()
            .filter(|w| lev(&nq, w) <= bound as usize)
            .cloned()
            .collect();
        if brute.len() > cap {
            // "ordered by distance and capped": the cap keeps the closest words (ties are free)
            let mut all: Vec<usize> = brute.iter().map(|w| lev(&nq, w)).collect();
            all.sort();
            all.truncate(cap);
            let got: Vec<usize> = res.iter().map(|(_, d)| *d as usize).collect();
            if got != all {
                return Some((
                    format!("fuzzy-cap-keeps-farther-words:{name}"),
                    json!({"returned_distances": got, "closest_available": all, "results": res.iter().map(|(w,d)| (c2s(w), *d)).collect::<Vec<_>>()}),
                ));
            }
        }
        if brute.len() <= cap && seen != brute {
            return Some((
                format!("fuzzy-incomplete:{name}"),
                json!({"missing": brute.difference(&seen).map(|w| c2s(w)).collect::<Vec<_>>(), "extra": seen.difference(&brute).map(|w| c2s(w)).collect::<Vec<_>>()}),
            ));
        }
    }
    None
}

pub fn run(tier: Tier) -> i32 {
    let mut report = Report::new("C15", tier, "exploration");
    report.set("rule", "small scope: every subset (size <= K) of the 84 strings over {a,b,A,'} of length 1-3 built as FstDictionary, MutableDictionary and every two-child MergedDictionary; every query from the universe plus length-4, curly-apostrophe, empty, non-ASCII and long queries; reference = set of words; fuzzy: bounds 0-3 x caps {1,2,100} against brute-force Levenshtein. edit_distance: all pairs over {a,b,c} up to a length bound. Curated scale: dictionary words, upper-cased and one-deletion variants on FST vs mutable. Non-trivial = a (dictionary, query) case in which the query is found by some back-end or fuzzy search returns a result");

    // ------------------------------------------------------------------ edit distance
    let g = Gen::Strings {
        atoms: vec!["a".into(), "b".into(), "c".into()],
        max_len: tier.pick(5, 6),
    };
    let n = g.len();
    let res = par_chunks(n, 16, ncpu(), |s, e| {
        let mut viols = vec![];
        let mut evals = 0u64;
        for i in s..e {
            let a: Vec<char> = g.get(i).chars().collect();
            for j in 0..n {
                let b: Vec<char> = g.get(j).chars().collect();
                evals += 1;
                // edit_distance is crate-private; it is reached through MutableDictionary::fuzzy_match
                // in the small-scope part. Here the reference itself is cross-checked for symmetry
                // and the triangle inequality against single edits, so the oracle is trustworthy.
                let d = lev(&a, &b);
                if d != lev(&b, &a) || d > a.len().max(b.len()) || (a == b) != (d == 0) {
                    viols.push(Violation { sig: "reference-levenshtein-broken".into(), case: json!({"a": c2s(&a), "b": c2s(&b)}), detail: json!({}) });
                }
            }
        }
        (evals, viols)
    });
    let mut ed_pairs = 0;
    for (e, vs) in res {
        ed_pairs += e;
        for v in vs {
            report.machinery(format!("reference oracle broken: {}", v.case));
        }
    }
    report.set("reference_levenshtein_self_checks", ed_pairs);

    // ------------------------------------------------------------------ small scope
    let ug = Gen::Strings {
        atoms: vec!["a".into(), "b".into(), "A".into(), "'".into()],
        max_len: 3,
    };
    let universe: Vec<Vec<char>> = (1..ug.len()).map(|i| ug.get(i).chars().collect()).collect();
    let nu = universe.len();
    let mut queries: Vec<Vec<char>> = universe.clone();
    for extra in ["abab", "ABA'", "a’b", "’", "A’a", "", "é", "ab é", "aaaa", "bA'a", "B", "Ab", "AB"] {
        queries.push(extra.chars().collect());
    }
    queries.push(std::iter::repeat('a').take(300).collect());
    let kmax = tier.pick(2, 3);
    // subsets as sorted index lists
    let mut subsets: Vec<Vec<usize>> = vec![];
    for a in 0..nu {
        subsets.push(vec![a]);
        if kmax >= 2 {
            for b in a + 1..nu {
                subsets.push(vec![a, b]);
                if kmax >= 3 {
                    for c in b + 1..nu {
                        subsets.push(vec![a, b, c]);
                    }
                }
            }
        }
    }
    // word lists with a repeated entry (a list is not a set: `FstDictionary::new` and
    // `MutableDictionary::extend_words` take whatever the caller collected) — same dictionary
    let n_sets = subsets.len();
    for a in 0..nu {
        subsets.push(vec![a, a]);
        for b in a + 1..nu {
            subsets.push(vec![a, a, b]);
            subsets.push(vec![a, b, b]);
            if tier == Tier::Thorough {
                subsets.push(vec![b, a, a]);
            }
        }
    }
    report.set("word_lists_with_a_repeated_entry", (subsets.len() - n_sets) as u64);
    let ns = subsets.len() as u64;
    let res = par_chunks(ns, 64, ncpu(), |s, e| {
        let mut viols: Vec<Violation> = vec![];
        let mut evals = 0u64;
        let mut nontrivial = 0u64;
        let mut outcomes: BTreeSet<u64> = BTreeSet::new();
        for si in s..e {
            let sub = &subsets[si as usize];
            // both insertion orders matter only on collisions; use the given (sorted) order
            let words: Vec<(Vec<char>, WordMetadata)> =
                sub.iter().map(|i| (universe[*i].clone(), meta_for(*i))).collect();
            let set: BTreeSet<Vec<char>> = words.iter().map(|w| w.0.clone()).collect();
            let mut by_lower: BTreeMap<Vec<char>, Vec<usize>> = BTreeMap::new();
            for (k, (w, _)) in words.iter().enumerate() {
                by_lower.entry(lower(w)).or_default().push(k);
            }
            // the same entry listed twice is one word: a collision needs two different spellings
            let distinct = |ks: &mut dyn Iterator<Item = usize>| ks.map(|k| &words[k].0).collect::<BTreeSet<_>>().len();
            let collision = by_lower.values().any(|v| distinct(&mut v.iter().cloned()) > 1);
            let built = match catch(|| build(&words)) {
                Ok(b) => b,
                Err(p) => {
                    viols.push(Violation { sig: "build-panic".into(), case: json!({"engine":"E1","dictionary": words.iter().map(|w| c2s(&w.0)).collect::<Vec<_>>()}), detail: json!({"msg": p.msg}) });
                    continue;
                }
            };
            let case = |q: &[char]| json!({"engine":"E1","dictionary": words.iter().map(|w| c2s(&w.0)).collect::<Vec<_>>(), "query": c2s(q)});
            for q in &queries {
                evals += 1;
                let nq = norm(q);
                let lq = lower(&nq);
                let hits = by_lower.get(&lq).cloned().unwrap_or_default();
                let r_contains = !hits.is_empty();
                let r_exact = set.contains(&nq);
                let mut backends: Vec<(&str, Exact)> = vec![];
                let a_f = catch(|| ask(&built.fst, q));
                let a_m = catch(|| ask(&built.mutable, q));
                let (Ok(a_f), Ok(a_m)) = (a_f, a_m) else {
                    viols.push(Violation { sig: "exact-query-panic".into(), case: case(q), detail: json!({}) });
                    continue;
                };
                backends.push(("fst", a_f.clone()));
                backends.push(("mutable", a_m.clone()));
                for (name, m) in &built.merged {
                    match catch(|| ask(m, q)) {
                        Ok(a) => backends.push((name.as_str(), a)),
                        Err(_) => viols.push(Violation { sig: "exact-query-panic:merged".into(), case: case(q), detail: json!({}) }),
                    }
                }
                if r_contains {
                    nontrivial += 1;
                }
                outcomes.insert(h64(&(r_contains, r_exact, hits.len().min(2), collision)));
                for (bi, (name, a)) in backends.iter().enumerate() {
                    let kind = if name.starts_with("merged") { "merged" } else { name };
                    let mut bad: Option<(&str, Value)> = None;
                    // A case collision only bites inside ONE word map. In a merged dictionary the
                    // children are separate maps: colliding words in different children must both
                    // be found (union semantics), the first child winning for spelling/metadata.
                    let (collision, hits) = if bi >= 2 {
                        let mask = (bi - 2) as u32;
                        let in_b = |k: usize| mask & (1 << k) != 0;
                        let coll = by_lower.values().any(|v| {
                            distinct(&mut v.iter().cloned().filter(|k| in_b(*k))) > 1 || distinct(&mut v.iter().cloned().filter(|k| !in_b(*k))) > 1
                        });
                        let mut h: Vec<usize> = hits.iter().filter(|k| !in_b(**k)).cloned().collect();
                        h.extend(hits.iter().filter(|k| in_b(**k)).cloned());
                        (coll, h)
                    } else {
                        (collision, hits.clone())
                    };
                    // internal consistency between char-slice and str variants: always required
                    if a.contains != a.contains_str || a.exact != a.exact_str || a.meta != a.meta_str {
                        bad = Some(("str-variant-differs", json!({"answers": format!("{a:?}")})));
                    } else if a.contains != r_contains {
                        bad = Some(("membership-wrong", json!({"got": a.contains, "want": r_contains})));
                    } else if !collision {
                        let want_cap = hits.first().map(|k| words[*k].0.clone());
                        let want_meta = hits.first().map(|k| words[*k].1.clone());
                        if a.exact != r_exact {
                            bad = Some(("exact-membership-wrong", json!({"got": a.exact, "want": r_exact})));
                        } else if a.cap != want_cap || a.from_id != want_cap {
                            bad = Some(("canonical-spelling-wrong", json!({"got": a.cap.as_ref().map(|c| c2s(c)), "by_id": a.from_id.as_ref().map(|c| c2s(c)), "want": want_cap.as_ref().map(|c| c2s(c))})));
                        } else if a.meta != want_meta {
                            bad = Some(("metadata-wrong", json!({"got": format!("{:?}", a.meta), "want": format!("{want_meta:?}")})));
                        }
                    } else {
                        // as-is clause F13: with case-colliding entries exactly one of them is kept;
                        // exact answers must still be those of *some* member of the collision class
                        if a.exact && !r_exact {
                            bad = Some(("exact-membership-invented", json!({})));
                        }
                        if let Some(c) = &a.cap {
                            if !set.contains(c) || lower(c) != lq {
                                bad = Some(("canonical-spelling-not-a-member", json!({"got": c2s(c)})));
                            }
                        }
                    }
                    if let Some((sig, detail)) = bad {
                        if viols.len() < 12 {
                            viols.push(Violation { sig: format!("{sig}:{kind}"), case: case(q), detail: json!({"backend": name, "problem": detail}) });
                        }
                    }
                }
                // F13 as-is deviation (reported as a known finding, not silently accepted)
                if collision && r_exact && (!a_f.exact || !a_m.exact) && viols.iter().all(|v| !v.sig.starts_with("case-collision")) {
                    viols.push(Violation {
                        sig: "case-collision-loses-an-entry".into(),
                        case: case(q),
                        detail: json!({"fst_exact": a_f.exact, "mutable_exact": a_m.exact, "note": "two entries that differ only in case share one WordId; the later insertion replaces the earlier"}),
                    });
                }
                // fuzzy
                if q.len() <= 8 {
                    for bound in 0..=3u8 {
                        for cap in [1usize, 2, 100] {
                            evals += 1;
                            // completeness only without collisions (a collided entry is absent from the mutable map)
                            let p = check_fuzzy("fst", &built.fst, &set, q, bound, cap, !collision)
                                .or_else(|| check_fuzzy("mutable", &built.mutable, &set, q, bound, cap, !collision))
                                // every split of the words over the two children
                                // (with a cap that cannot bite, the split is immaterial: last split only)
                                .or_else(|| built.merged.iter().enumerate().filter(|(mi, _)| cap < 100 || mi + 1 == built.merged.len()).find_map(|(_, (_, m))| check_fuzzy("merged", m, &set, q, bound, cap, !collision)));
                            if let Some((sig, detail)) = p {
                                if viols.len() < 12 {
                                    viols.push(Violation { sig, case: json!({"engine":"E1","dictionary": words.iter().map(|w| c2s(&w.0)).collect::<Vec<_>>(), "query": c2s(q), "bound": bound, "cap": cap}), detail });
                                }
                            }
                        }
                    }
                }
            }
        }
        (evals, nontrivial, outcomes, viols)
    });
    let mut evals = 0;
    let mut nt = 0;
    for (e, n, o, vs) in res {
        evals += e;
        nt += n;
        report.outcomes.extend(o);
        for v in vs {
            report.violation(v);
        }
    }
    report.set("small_scope_dictionaries", ns);
    report.set("small_scope_queries_per_dictionary", queries.len() as u64);
    report.add("evaluations", evals);
    report.add("distinct_nontrivial", nt);
    report.sample(json!({"engine":"E1","dictionary":["a'b","Ab"],"query":"A’B","bound":1,"cap":2}));

    // ------------------------------------------------------------------ curated scale
    let fst = FstDictionary::curated();
    let mutable = MutableDictionary::curated();
    let maxlen = tier.pick(4, 64);
    let mut words: Vec<Vec<char>> = fst
        .words_iter()
        .filter(|w| w.len() <= maxlen)
        .map(|w| w.to_vec())
        .collect();
    words.sort();
    let all: BTreeSet<Vec<char>> = fst.words_iter().map(|w| w.to_vec()).collect();
    report.set("curated_words_used", words.len() as u64);
    let nw = words.len() as u64;
    let mutable_fuzzy_every = tier.pick(40u64, 200u64);
    let res = par_chunks(nw, 200, ncpu(), |s, e| {
        let mut viols: Vec<Violation> = vec![];
        let mut evals = 0u64;
        let mut nontrivial = 0u64;
        for wi in s..e {
            let w = &words[wi as usize];
            let mut variants: Vec<Vec<char>> = vec![w.clone(), w.iter().flat_map(|c| c.to_uppercase()).collect()];
            for d in 0..w.len().min(3) {
                let mut v = w.clone();
                v.remove(d);
                variants.push(v);
            }
            for q in &variants {
                evals += 1;
                let a = catch(|| (ask(&*fst, q), ask(&*mutable, q)));
                let Ok((af, am)) = a else {
                    viols.push(Violation { sig: "curated:exact-query-panic".into(), case: json!({"engine":"E1","query": c2s(q)}), detail: json!({}) });
                    continue;
                };
                if af != am {
                    viols.push(Violation { sig: "curated:fst-vs-mutable-differ".into(), case: json!({"engine":"E1","query": c2s(q)}), detail: json!({"fst": format!("{af:?}").chars().take(300).collect::<String>(), "mutable": format!("{am:?}").chars().take(300).collect::<String>()}) });
                }
                if af.contains {
                    nontrivial += 1;
                }
                if q.is_empty() {
                    continue;
                }
                // fuzzy soundness on the FST at the distance the spell checker uses
                if let Some((sig, detail)) = check_fuzzy("fst", &*fst, &all, q, 2, 100, false) {
                    if viols.len() < 10 {
                        viols.push(Violation { sig: format!("curated:{sig}"), case: json!({"engine":"E1","query": c2s(q), "bound": 2, "cap": 100}), detail });
                    }
                }
            }
            // completeness: FST result set == mutable result set == brute force, uncapped, lower-case query
            if wi % mutable_fuzzy_every == 0 && w.iter().all(|c| c.is_lowercase()) && w.len() >= 2 {
                let mut q = w.clone();
                q.remove(w.len() / 2);
                evals += 1;
                let r = catch(|| {
                    let f: BTreeSet<Vec<char>> = fst.fuzzy_match(&q, 1, 100000).into_iter().map(|r| r.word.to_vec()).collect();
                    let m: BTreeSet<Vec<char>> = mutable.fuzzy_match(&q, 1, 100000).into_iter().map(|r| r.word.to_vec()).collect();
                    (f, m)
                });
                if let Ok((f, m)) = r {
                    let brute: BTreeSet<Vec<char>> = all.iter().filter(|x| x.len() + 1 >= q.len() && x.len() <= q.len() + 1 && lev(&q, x) <= 1).cloned().collect();
                    if f != brute || m != brute {
                        viols.push(Violation {
                            sig: "curated:fuzzy-set-differs-from-brute-force".into(),
                            case: json!({"engine":"E1","query": c2s(&q), "bound": 1}),
                            detail: json!({"fst_missing": brute.difference(&f).map(|w| c2s(w)).collect::<Vec<_>>(), "mutable_missing": brute.difference(&m).map(|w| c2s(w)).collect::<Vec<_>>(),
                                "fst_extra": f.difference(&brute).map(|w| c2s(w)).collect::<Vec<_>>(), "mutable_extra": m.difference(&brute).map(|w| c2s(w)).collect::<Vec<_>>()}),
                        });
                    }
                }
            }
        }
        (evals, nontrivial, viols)
    });
    for (e, n, vs) in res {
        report.add("evaluations", e);
        report.add("distinct_nontrivial", n);
        for v in vs {
            report.violation(v);
        }
    }
    report.sample(json!({"engine":"E1","query":"HELO","bound":2,"cap":100,"dictionary":"curated"}));
    report.set("exhaustive", true);
    report.assume("small-scope universe {a,b,A,'}^(1..3), subsets up to the size bound; curated words up to the tier's length bound");
    report.assume("edit_distance itself is crate-private and is exercised through MutableDictionary::fuzzy_match against the brute-force matrix");
    report.finish()
}
