//! Engine E1: the text-space sweep shared by C01 (crash/hang), C02 (token invariants) and
//! C03 (lint spans / suggestion splice, incl. through the chunk cache).

use crate::frontends::{self, Class, FrontEnd};
use crate::harvest::Harvest;
use crate::pool::{ChunkOut, Job};
use crate::spaces::*;
use crate::util::*;
use harper_core::linting::{Lint, LintGroup, Linter, Suggestion};
use harper_core::parsers::Parser;
use harper_core::{Dialect, Document, FstDictionary, Punctuation, Token, TokenKind};
use serde_json::{Value, json};
use std::sync::Arc;

#[derive(Clone, Copy, PartialEq, Eq, Debug)]
pub enum Mode {
    C01,
    C02,
    C03,
}

pub const DIALECTS: [Dialect; 4] = [
    Dialect::American,
    Dialect::British,
    Dialect::Australian,
    Dialect::Canadian,
];

pub fn all_on(dialect: Dialect, dict: Arc<FstDictionary>) -> LintGroup {
    let mut g = LintGroup::new_curated(dict, dialect);
    g.set_all_rules_to(Some(true));
    g
}

pub fn lint_json(l: &Lint) -> Value {
    json!({
        "span": [l.span.start, l.span.end],
        "kind": format!("{:?}", l.lint_kind),
        "message": l.message,
        "suggestions": l.suggestions.iter().map(|s| s.to_string()).collect::<Vec<_>>(),
        "priority": l.priority,
    })
}

pub struct Sweep {
    pub mode: Mode,
    pub tier: Tier,
    pub fes: Vec<FrontEnd>,
    pub space: TextSpace,
    pub curated: Arc<FstDictionary>,
    /// all-on linters per dialect (lazy)
    linters: Vec<Option<LintGroup>>,
    default_linter: Option<LintGroup>,
    off_linter: Option<LintGroup>,
    bisected: std::collections::BTreeSet<String>,
}

fn fe_idx(fes: &[FrontEnd], pred: impl Fn(&FrontEnd) -> bool) -> Vec<usize> {
    fes.iter()
        .enumerate()
        .filter(|(_, f)| pred(f))
        .map(|(i, _)| i)
        .collect()
}

impl Sweep {
    pub fn new(mode: Mode, tier: Tier, h: &Harvest) -> Self {
        let fes = frontends::all();
        let t = tier;
        let mut fams: Vec<Family> = vec![];
        let name_is = |n: &'static str| move |f: &FrontEnd| f.name == n;

        // ---- G1 per front-end class --------------------------------------------------------
        let plain = fe_idx(&fes, |f| f.class == Class::Plain);
        fams.push(Family {
            name: "G1/plain".into(),
            fes: plain.clone(),
            generator: Gen::Strings {
                atoms: sigma_char()[..t.pick(14, 18)].to_vec(),
                max_len: t.pick(4, 5),
            },
            embed: false,
        });
        // full Σ_char at a shorter length so every symbol is reached
        fams.push(Family {
            name: "G1/plain-full-sigma".into(),
            fes: fe_idx(&fes, name_is("plain")),
            generator: Gen::Strings {
                atoms: sigma_char(),
                max_len: t.pick(3, 4),
            },
            embed: false,
        });
        // quote pairing across paragraphs, sentence structure around quotes
        fams.push(Family {
            name: "G1/quotes-and-paragraphs".into(),
            fes: fe_idx(&fes, |f| f.name == "plain" || f.name == "markdown"),
            generator: Gen::Strings {
                atoms: strs(&["\"", "a", " ", "\n\n", "“", "."]),
                max_len: t.pick(6, 7),
            },
            embed: false,
        });
        // the address lexers (URL with credentials, port, path, escapes; e-mail; host name) and the
        // number/currency lexers: cursor arithmetic that ordinary prose alphabets never reach
        fams.push(Family {
            name: "G1/addresses".into(),
            fes: fe_idx(&fes, |f| f.name == "plain" || f.name == "markdown"),
            generator: Gen::Strings {
                atoms: strs(&["http://", "a", ".", ":", "@", "/", "%41", "8", "?", " ", "é", "-", "co"]),
                max_len: t.pick(4, 6),
            },
            embed: false,
        });
        fams.push(Family {
            name: "G1/numbers-and-currency".into(),
            fes: fe_idx(&fes, name_is("plain")),
            generator: Gen::Strings {
                atoms: strs(&["1", "0", ".", ",", "$", "€", "e", "-", "x", "st", "th", "%", " ", "F", "£", "s", "TH", "Nd"]),
                max_len: t.pick(4, 5),
            },
            embed: false,
        });
        // runs of different blanks between words (space next to tab, NBSP, newline): the passes
        // that merge blanks
        fams.push(Family {
            name: "G1/blanks".into(),
            fes: fe_idx(&fes, |f| f.name == "plain" || f.name == "markdown" || f.name == "comment:rust"),
            generator: Gen::Strings {
                atoms: strs(&[" ", "\t", "a", "\n", "\u{a0}", "."]),
                max_len: t.pick(6, 7),
            },
            embed: false,
        });
        // literals at and beyond the width of the machine types that hold their value
        {
            let mut v: Vec<String> = vec![];
            for k in 1..=40usize {
                v.push(format!("0x{}", "F".repeat(k)));
                v.push(format!("0x1{}", "0".repeat(k)));
                v.push(format!("{}", "9".repeat(k)));
                v.push(format!("1{}", "0".repeat(k)));
                v.push(format!("1.{}", "3".repeat(k)));
                v.push(format!("{}st", "1".repeat(k)));
                v.push(format!("1e{}", "9".repeat(k.min(5))));
                v.push(format!("{}.5", "7".repeat(k)));
                v.push(format!("1e{}TH", k));
                v.push(format!("1.5e{}ST", k));
                v.push(format!("{}RD", "2".repeat(k)));
            }
            let mut list: Vec<String> = vec![];
            for x in v {
                list.push(x.clone());
                list.push(format!("The value {x} is here."));
            }
            fams.push(Family {
                name: "N/long-literals".into(),
                fes: fe_idx(&fes, |f| f.name == "plain" || f.name == "markdown"),
                generator: Gen::List(Arc::new(list)),
                embed: false,
            });
        }
        // tabs after block markers (pulldown-cmark expands them)
        fams.push(Family {
            name: "G1/markdown-tabs".into(),
            fes: fe_idx(&fes, |f| f.name == "markdown" || f.name == "gitcommit" || f.name == "lhaskell"),
            generator: Gen::Strings {
                atoms: strs(&["\t", "*", "-", ">", "a", "#", "[[", "&amp;", " ", "\n", "1."]),
                max_len: t.pick(4, 5),
            },
            embed: false,
        });
        // wikilinks: harper post-processes `[[target|text]]` runs that pulldown-cmark leaves
        // literal (empty target, escaped bracket, nesting, several pipes, a table next to them)
        fams.push(Family {
            name: "G1/markdown-wikilinks".into(),
            fes: fe_idx(&fes, |f| f.name == "markdown" || f.name == "comment:rust"),
            generator: Gen::Strings {
                atoms: strs(&["[[", "]]", "|", "a", " ", "\\", "[", "]"]),
                max_len: t.pick(6, 8),
            },
            embed: false,
        });
        // character references (which decode to a different character than the source holds) and
        // inline spans whose delimiters are longer than one character
        fams.push(Family {
            name: "G1/markdown-entities-and-spans".into(),
            fes: fe_idx(&fes, |f| f.name == "markdown" || f.name == "comment:rust"),
            generator: Gen::Strings {
                atoms: strs(&["a", " ", "&lt;", "&nbsp;", "&#8212;", "&eacute;", "`", "``", "$", "$$", "\n\n", "é"]),
                max_len: t.pick(4, 5),
            },
            embed: true,
        });
        let md = fe_idx(&fes, |f| {
            f.class == Class::Markdown || f.class == Class::GitCommit
        });
        fams.push(Family {
            name: "G1/markdown".into(),
            fes: md.clone(),
            generator: Gen::Strings {
                atoms: sigma_md()[..t.pick(24, 33)].to_vec(),
                max_len: t.pick(3, 4),
            },
            embed: false,
        });
        fams.push(Family {
            name: "G1/markdown-full-sigma".into(),
            fes: fe_idx(&fes, name_is("markdown")),
            generator: Gen::Strings {
                atoms: sigma_md(),
                max_len: t.pick(3, 3),
            },
            embed: false,
        });
        fams.push(Family {
            name: "G1/html".into(),
            fes: fe_idx(&fes, |f| f.class == Class::Html),
            generator: Gen::Strings {
                atoms: sigma_html(),
                max_len: t.pick(4, 5),
            },
            embed: false,
        });
        fams.push(Family {
            name: "G1/typst".into(),
            fes: fe_idx(&fes, |f| f.class == Class::Typst),
            generator: Gen::Strings {
                atoms: sigma_typst(),
                max_len: t.pick(3, 4),
            },
            embed: false,
        });
        // every expression kind of the Typst translator (patterns, closures, calls whose arguments
        // are partly unlintable, arrays, dictionaries, control flow), each with an ASCII and a
        // multi-byte filling, and EVERY PREFIX of each (the file while it is being typed)
        {
            let constructs = [
                "#let (a, b) = (1, 2)\nProse aftr it.",
                "#let (a, (b, c)) = x",
                "#let (a: b, ..rest) = (a: 1)",
                "#let ((a)) = 1",
                "#let f(x, y: 2, ..z) = [Some prose x]",
                "#let f = (x, y) => [Some prose here]",
                "#let g = x => x + 1",
                "#f(1, name: [prose here], ..args)",
                "#image(\"a.png\", alt: \"Alt text hre\")",
                "#image(alt: \"Alt text hre\", \"a.png\")",
                "#bibliography(title: [Refs here], \"a.bib\", style: \"ieee\")",
                "#cite(<a>, supplement: [p. 7 prose], style: \"x\")",
                "#raw(\"code hre\", theme: \"t\", lang: \"rs\")",
                "#raw(theme: \"t\", \"code hre\")",
                "#rgb(\"ff0000\") #regex(\"a+\") #plugin(\"p.wasm\")",
                "#datetime.today().display(\"[year] prose\")",
                "#figure(caption: [A captoin])[body prose]",
                "#(1, 2, \"three wrods\")",
                "#(a: 1, \"k\": [val prose], ..d)",
                "#if x [yes prose] else [no prose]",
                "#if x { [a] } else if y { [b] } else { [c prose] }",
                "#while x < 3 [loop prose]",
                "#for x in (1, 2) [item prose]",
                "#for (k, v) in d [pair prose]",
                "#context [ctx prose]",
                "line one \\ line two",
                "#let x = context { here() }",
                "#show heading: it => [pre #it.body]",
                "#show \"foo\": \"bar\"",
                "#set text(lang: \"en\")",
                "#import \"a.typ\": b, c",
                "#include \"b.typ\"",
                "$ x^2 $ math prose $y$",
                "#{ let y = [inner prose]; y }",
                "#[content block prose]",
                "#x.at(0).field",
                "#f[trailing prose][two]",
                "#link(\"http://a.co\")[link text]",
                "= Heading prose\n== Sub",
                "- list item\n+ enum item\n/ Term: description prose",
                "*strong* _emph_ `raw` ```rs\nfn x```",
                "#\"string prose\"",
                "#none #auto #true #1.5em #2pt #50%",
                "#(x + y * 2 - z / 3)",
                "#(not a and b or c in d)",
                "#(a == b, a != b, a <= b)",
                "#(x = 5) #(x += 1)",
                "#f(x)(y)[z]",
                "@ref <label> prose",
                "#let f(x) = { return x }",
                "#for x in y { break; continue }",
                "'quote' \"dquote\" it's",
                "a -- b --- c ... ~d",
                "#sym.arrow text",
                "https://a.co raw link",
                "\\u{e9} \\# \\$ escaped",
                "#f(..a, b) #f(a: 1, a: 2)",
                "#let (..a) = b\n#let (_, b) = c",
                "// comment prose\n/* block */ after",
                "#table(columns: 2, [a prose], [b])",
            ];
            let mut list: std::collections::BTreeSet<String> = Default::default();
            for c in constructs {
                for variant in [c.to_string(), c.replace("prose", "prosé 😀").replace("\"a", "\"é")] {
                    let cs: Vec<char> = variant.chars().collect();
                    for k in 0..=cs.len() {
                        list.insert(cs[..k].iter().collect());
                    }
                    list.insert(format!("Intro txt. {variant} And more."));
                }
            }
            fams.push(Family {
                name: "T/typst-constructs-all-prefixes".into(),
                fes: fe_idx(&fes, |f| f.class == Class::Typst),
                generator: Gen::List(Arc::new(list.into_iter().collect())),
                embed: false,
            });
        }
        fams.push(Family {
            name: "G1/lhaskell".into(),
            fes: fe_idx(&fes, |f| f.class == Class::Lhs),
            generator: Gen::Strings {
                atoms: sigma_lhs(),
                max_len: t.pick(4, 5),
            },
            embed: false,
        });
        for (i, f) in fes.iter().enumerate() {
            if f.class != Class::Comment {
                continue;
            }
            let lang = f.lang.unwrap();
            let is_ls = f.name.starts_with("ls:");
            fams.push(Family {
                name: format!("G1/{}", f.name),
                fes: vec![i],
                generator: Gen::Strings {
                    atoms: sigma_lang(lang),
                    max_len: if is_ls { t.pick(2, 3) } else { t.pick(3, 4) },
                },
                embed: false,
            });
        }

        // C03 runs three lint passes per case (first, cached, rebased): its thorough tier deepens
        // the G1 families above but keeps the quick-tier bounds for the two huge families below
        // (C01 and C02 sweep the same G2/G3 space at the thorough bounds)
        let t = if mode == Mode::C03 { Tier::Quick } else { t };
        // ---- G3: deviations of the seed texts ------------------------------------------------
        let g3q = Arc::new(g3(
            &h.seeds,
            &G3Opts {
                prefixes: true,
                suffixes: t == Tier::Thorough || mode == Mode::C01,
                windows: t.pick(2, 6),
                deletions: t == Tier::Thorough,
                ends: t.pick(strs(&["", " "]), strs(&["", " ", ".", ",", "?", "\n", "\n\n"])),
                second_order: t == Tier::Thorough,
                ws_variants: t.pick(strs(&[" \n"]), strs(&[" \n", "\n ", "\t", "  ", " \n\n"])),
            },
        ));
        let prose_q: Vec<usize> = fe_idx(&fes, |f| {
            matches!(
                f.name.as_str(),
                "plain" | "markdown" | "comment:rust" | "comment:javascript" | "html"
            )
        });
        let prose_all: Vec<usize> = (0..fes.len()).collect();
        // thorough: one front-end per class and per comment-grammar family (every front-end still
        // sees every whole seed in S/seeds-all-frontends)
        let prose_wide: Vec<usize> = fe_idx(&fes, |f| {
            matches!(
                f.name.as_str(),
                "plain" | "markdown" | "gitcommit" | "html" | "typst" | "lhaskell" | "comment:rust" | "comment:javascript" | "comment:python" | "comment:go" | "comment:lua" | "comment:ruby"
            ) || f.name.contains("isolate")
        });
        fams.push(Family {
            name: "G3/seed-deviations".into(),
            fes: t.pick(prose_q.clone(), prose_wide.clone()),
            generator: Gen::List(g3q.clone()),
            embed: true,
        });
        // the seeds themselves, whole, through *every* front-end
        fams.push(Family {
            name: "S/seeds-all-frontends".into(),
            fes: prose_all.clone(),
            generator: Gen::List(Arc::new(h.seeds.clone())),
            embed: true,
        });

        // ---- rules with a length threshold (LongSentences fires above 40 words) need long inputs:
        //      unterminated / terminated long sentences in every structural position
        let w41: String = std::iter::repeat("word").take(41).collect::<Vec<_>>().join(" ");
        let w45: String = std::iter::repeat("other").take(45).collect::<Vec<_>>().join(" ");
        let mut long: Vec<String> = vec![];
        for w in [&w41, &w45] {
            for pat in [
                "{w}", "{w}.", "{w} ", "Hi. {w}", "Hi. {w}\n", "Hi. {w}\n\nNext one.", "{w}\n\n{w}", "{w}.\n\n{w}", "- {w}\n- item", "- {w}\n\ntext",
                "> {w}\n\ntext", "# {w}\n\ntext", "\"{w}", "({w}", "{w}\n\n\n", "*{w}*\n\nmore", "a\n\n{w}\n\nb", "{w}, {w}; {w}",
            ] {
                long.push(pat.replace("{w}", w));
            }
        }
        fams.push(Family {
            name: "L/long-sentences".into(),
            fes: (0..fes.len()).collect(),
            generator: Gen::List(Arc::new(long)),
            embed: true,
        });

        // ---- G2: every trigger word next to every other -------------------------------------
        let vocab = Arc::new(h.vocab.clone());
        let fe_plain = fe_idx(&fes, name_is("plain"));
        if t == Tier::Thorough {
            fams.push(Family {
                name: "G2/pairs".into(),
                fes: fe_plain.clone(),
                generator: Gen::Pairs {
                    vocab: vocab.clone(),
                    vocab2: vocab.clone(),
                    // C01 lints every pair with every rule: three separators; C02 sees all six
                    seps: if mode == Mode::C01 { strs(&[" ", ". ", "\n"]) } else { strs(&[" ", "-", ", ", ". ", "\n", "'"]) },
                    ends: strs(&[""]),
                },
                embed: false,
            });
        } else {
            // quick: every word next to (before and after) each of the 150 shortest words, which
            // are the function words most rules key on (bound lowered, nothing sampled)
            let short: Arc<Vec<String>> = Arc::new(h.vocab.iter().take(150).cloned().collect());
            fams.push(Family {
                name: "G2/pairs(V x V150)".into(),
                fes: fe_plain.clone(),
                generator: Gen::Pairs {
                    vocab: vocab.clone(),
                    vocab2: short.clone(),
                    seps: strs(&[" "]),
                    ends: strs(&[""]),
                },
                embed: false,
            });
            fams.push(Family {
                name: "G2/pairs(V150 x V)".into(),
                fes: fe_plain.clone(),
                generator: Gen::Pairs {
                    vocab: short,
                    vocab2: vocab.clone(),
                    seps: strs(&[" "]),
                    ends: strs(&[""]),
                },
                embed: false,
            });
        }
        if t == Tier::Thorough {
            fams.push(Family {
                name: "G2/pairs-ends".into(),
                fes: fe_plain.clone(),
                generator: Gen::Pairs {
                    vocab: vocab.clone(),
                    vocab2: vocab.clone(),
                    seps: strs(&[" "]),
                    ends: strs(&[".", "?", "\n\n"]),
                },
                embed: false,
            });
        }

        // C02/C03 do not need the quadratic G2 family at full size in the quick tier.
        if mode != Mode::C01 && t == Tier::Quick {
            fams.retain(|f| !f.name.starts_with("G2/pairs"));
            let small: Arc<Vec<String>> = Arc::new(
                h.vocab
                    .iter()
                    .enumerate()
                    .filter(|(i, _)| i % 4 == 0)
                    .map(|(_, w)| w.clone())
                    .collect(),
            );
            let triggers = Arc::new(strs(&[
                "e.g", "etc", "vs", "et al", "1st", "2ND", "isn't", "...", "i.e", "U.S.A", "1990s", "3rd",
                "0x1F", "a@b.co", "$5", "I", "é", "😀", "the", "an", "then",
            ]));
            fams.push(Family {
                name: "G2/word-x-trigger".into(),
                fes: fe_plain.clone(),
                generator: Gen::Pairs {
                    vocab: small.clone(),
                    vocab2: triggers.clone(),
                    seps: strs(&[" ", ". ", "'"]),
                    ends: strs(&["", ".", " "]),
                },
                embed: false,
            });
            fams.push(Family {
                name: "G2/trigger-x-word".into(),
                fes: fe_plain.clone(),
                generator: Gen::Pairs {
                    vocab: triggers,
                    vocab2: small,
                    seps: strs(&[" ", ". ", "'"]),
                    ends: strs(&["", "."]),
                },
                embed: false,
            });
        }

        if let Ok(only) = std::env::var("HV_FAMILIES") {
            let pre: Vec<&str> = only.split(',').collect();
            fams.retain(|f| pre.iter().any(|p| f.name.starts_with(p)));
        }
        let nd = DIALECTS.len();
        Self {
            mode,
            tier,
            fes,
            space: TextSpace::new(fams),
            curated: FstDictionary::curated(),
            linters: (0..nd).map(|_| None).collect(),
            default_linter: None,
            off_linter: None,
            bisected: Default::default(),
        }
    }

    fn linter(&mut self, d: usize) -> &mut LintGroup {
        if self.linters[d].is_none() {
            self.linters[d] = Some(all_on(DIALECTS[d], self.curated.clone()));
        }
        self.linters[d].as_mut().unwrap()
    }

    pub fn case(&self, idx: u64) -> (usize, usize, String) {
        let (fam, fe, raw) = self.space.get(idx);
        let text = if self.space.families[fam].embed {
            self.fes[fe].embed(&raw)
        } else {
            raw
        };
        (fam, fe, text)
    }

    fn case_json(&self, fam: usize, fe: usize, text: &str) -> Value {
        json!({"engine":"E1","family": self.space.families[fam].name, "front_end": self.fes[fe].name, "text": text})
    }

    /// Which dialect indices to run for a family (all-on config).
    fn dialects_for(&self, fam: usize) -> &'static [usize] {
        let name = &self.space.families[fam].name;
        if self.mode == Mode::C01
            && (name.starts_with("S/") || (self.tier == Tier::Thorough && name.starts_with("G3/")))
        {
            &[0, 1, 2, 3]
        } else {
            &[0]
        }
    }

    // ------------------------------------------------------------------------------------ C01
    fn run_c01(&mut self, fam: usize, fe: usize, text: &str, out: &mut ChunkOut) {
        let chars = s2c(text);
        let curated = self.curated.clone();
        let dialects = self.dialects_for(fam);
        let extra_cfg = self.space.families[fam].name.starts_with("S/");
        let fes = std::mem::take(&mut self.fes);
        {
            let (parser, dict) = fes[fe].prepare(&chars, &curated);
            let doc = Document::new(text, &parser, &dict);
            let ntok = doc.get_tokens().len();
            let mut nl = 0usize;
            let mut kinds = 0u32;
            for &d in dialects {
                let lints = self.linter(d).lint(&doc);
                nl += lints.len();
                for l in &lints {
                    kinds |= 1 << (l.lint_kind as u32 % 32);
                }
            }
            if extra_cfg {
                if self.default_linter.is_none() {
                    self.default_linter =
                        Some(LintGroup::new_curated(curated.clone(), Dialect::American));
                    let mut off = LintGroup::new_curated(curated.clone(), Dialect::American);
                    off.set_all_rules_to(Some(false));
                    self.off_linter = Some(off);
                }
                nl += self.default_linter.as_mut().unwrap().lint(&doc).len();
                let off_l = self.off_linter.as_mut().unwrap().lint(&doc);
                if !off_l.is_empty() {
                    out.violation(
                        0,
                        Violation {
                            sig: "all-off-config-produced-lints".into(),
                            case: self.case_json(fam, fe, text),
                            detail: json!({"lints": off_l.iter().map(lint_json).collect::<Vec<_>>() }),
                        },
                    );
                }
            }
            out.count("evaluations", 1);
            if ntok > 0 {
                out.count("distinct_nontrivial", 1);
            }
            if nl > 0 {
                out.count("cases_with_lints", 1);
            }
            let mut tk = 0u32;
            for t in doc.get_tokens() {
                tk |= 1 << kind_ord(&t.kind);
            }
            out.outcome(h64(&(fes[fe].class as u8, tk, nl.min(3), kinds)));
        }
        self.fes = fes;
    }

    /// Find which stage / rule a crash belongs to (details for the replay file only).
    fn bisect_panic(&mut self, fe: usize, text: &str) -> Value {
        let chars = s2c(text);
        let curated = self.curated.clone();
        let fes = std::mem::take(&mut self.fes);
        let res = (|| {
            let prep = catch(|| {
                let (parser, dict) = fes[fe].prepare(&chars, &curated);
                let toks = parser.parse(&chars);
                let _ = toks.len();
                Document::new(text, &parser, &dict)
            });
            let doc = match prep {
                Err(p) => {
                    return json!({"stage": "parse/Document::new", "at": format!("{}:{}", short_file(&p.file), p.line), "msg": p.msg.chars().take(200).collect::<String>()});
                }
                Ok(d) => d,
            };
            let keys: Vec<String> = {
                let g = LintGroup::new_curated(curated.clone(), Dialect::American);
                let mut k: Vec<String> = g.iter_keys().map(|s| s.to_string()).collect();
                k.sort();
                k.dedup();
                k
            };
            let mut culprits = vec![];
            let mut g = LintGroup::new_curated(curated.clone(), Dialect::American);
            for k in &keys {
                g.set_all_rules_to(Some(false));
                g.config.set_rule_enabled(k, true);
                if let Err(p) = catch(|| g.lint(&doc)) {
                    culprits.push(json!({"rule": k, "at": format!("{}:{}", short_file(&p.file), p.line), "msg": p.msg.chars().take(200).collect::<String>()}));
                    g = LintGroup::new_curated(curated.clone(), Dialect::American);
                }
            }
            json!({"stage": "lint", "rules": culprits})
        })();
        self.fes = fes;
        res
    }

    // ------------------------------------------------------------------------------------ C02
    fn run_c02(&mut self, fam: usize, fe: usize, text: &str, out: &mut ChunkOut) {
        let chars = s2c(text);
        let curated = self.curated.clone();
        let fes = std::mem::take(&mut self.fes);
        let r = catch(|| {
            let (parser, dict) = fes[fe].prepare(&chars, &curated);
            let raw = parser.parse(&chars);
            let doc = Document::new(text, &parser, &dict);
            (raw, doc.get_tokens().to_vec())
        });
        let class = fes[fe].class;
        let fename = fes[fe].name.clone();
        self.fes = fes;
        out.count("evaluations", 1);
        let (raw, doc_toks) = match r {
            Ok(x) => x,
            Err(_) => {
                out.count("skipped_crashed(C01)", 1);
                return;
            }
        };
        let tiles = class == Class::Plain && !fename.contains("isolate");
        let mut problems: Vec<(String, Value)> = vec![];
        check_tokens(&chars, &raw, "parse", tiles, false, &mut problems);
        check_tokens(&chars, &doc_toks, "document", tiles, true, &mut problems);
        if !doc_toks.is_empty() {
            out.count("distinct_nontrivial", 1);
        }
        let mut tk = 0u32;
        for t in &doc_toks {
            tk |= 1 << kind_ord(&t.kind);
        }
        out.outcome(h64(&(class as u8, tk)));
        for (mut sig, detail) in problems {
            // cause class of finding F25: in a Typst source WITH SYNTAX ERRORS typst-syntax's typed
            // accessors fall back to a sibling node, so one source region is translated twice. Only
            // that shape (the offending token overlaps a token emitted earlier, and the source is
            // erroneous) gets the class suffix; anything else keeps its plain signature.
            if class == Class::Typst && (sig.contains(":duplicate-span") || sig.contains(":disorder")) {
                let list = if sig.starts_with("parse:") { &raw } else { &doc_toks };
                let i = detail["token"].as_u64().unwrap_or(0) as usize;
                let twice = list.get(i).map(|t| list[..i].iter().any(|p| p.span.start < p.span.end && p.span.start.max(t.span.start) < p.span.end.min(t.span.end))).unwrap_or(false);
                if twice && typst_syntax::parse(text).erroneous() {
                    sig.push_str(":region-translated-twice-in-incomplete-syntax");
                }
            }
            out.violation(
                0,
                Violation {
                    sig: format!("{}:{sig}", class_name(class)),
                    case: self.case_json(fam, fe, text),
                    detail,
                },
            );
        }
    }

    // ------------------------------------------------------------------------------------ C03
    fn run_c03(&mut self, fam: usize, fe: usize, text: &str, out: &mut ChunkOut) {
        let chars = s2c(text);
        let curated = self.curated.clone();
        let fes = std::mem::take(&mut self.fes);
        let r = catch(|| {
            let (parser, dict) = fes[fe].prepare(&chars, &curated);
            let doc = Document::new(text, &parser, &dict);
            // first through the long-lived (cached) group, twice; then behind a shifted copy
            let l1 = self.linter(0).lint(&doc);
            let l2 = self.linter(0).lint(&doc);
            (doc, l1, l2)
        });
        let class = fes[fe].class;
        self.fes = fes;
        out.count("evaluations", 1);
        let (_doc, l1, l2) = match r {
            Ok(x) => x,
            Err(_) => {
                out.count("skipped_crashed(C01)", 1);
                return;
            }
        };
        if !l1.is_empty() {
            out.count("distinct_nontrivial", 1);
        }
        out.count("lints_checked", (l1.len() + l2.len()) as u64);
        let mut kinds = 0u32;
        for (pass, lints) in [("first", &l1), ("cached", &l2)] {
            for l in lints {
                kinds |= 1 << (l.lint_kind as u32 % 32);
                if let Some((sig, detail)) = check_lint(&chars, l) {
                    out.violation(
                        0,
                        Violation {
                            sig: format!("{}:{sig}", class_name(class)),
                            case: self.case_json(fam, fe, text),
                            detail: json!({"pass": pass, "lint": lint_json(l), "problem": detail}),
                        },
                    );
                }
            }
        }
        out.outcome(h64(&(class as u8, kinds, l1.len().min(4))));

        // Third pass: the same clauses behind a multi-byte paragraph, same long-lived linter, so
        // cached chunk results are rebased to a different offset (pull_by/push_by path).
        if matches!(class, Class::Plain | Class::Markdown) && !l1.is_empty() {
            let prefix = "Éé 😀 fine.\n\n";
            let text2 = format!("{prefix}{text}");
            let chars2 = s2c(&text2);
            let shift = s2c(prefix).len();
            let fes = std::mem::take(&mut self.fes);
            let r = catch(|| {
                let (parser, dict) = fes[fe].prepare(&chars2, &curated);
                let doc = Document::new(&text2, &parser, &dict);
                self.linter(0).lint(&doc)
            });
            self.fes = fes;
            if let Ok(l3) = r {
                out.count("lints_checked", l3.len() as u64);
                out.count("shifted_documents", 1);
                for l in &l3 {
                    if let Some((sig, detail)) = check_lint(&chars2, l) {
                        out.violation(
                            0,
                            Violation {
                                sig: format!("{}:shifted:{sig}", class_name(class)),
                                case: self.case_json(fam, fe, &text2),
                                detail: json!({"pass": "shifted", "lint": lint_json(l), "problem": detail}),
                            },
                        );
                    }
                }
                // every lint of the original must reappear shifted, pointing at the same characters
                // (only when the original had no quotes, whose pairing is positional, and the text
                // did not start mid-construct: compare by flagged text, not by count)
                if !text.contains(['"', '“', '”']) && self.fes[fe].name == "plain" {
                    for l in &l1 {
                        let want = (l.span.start + shift, l.span.end + shift);
                        let found = l3.iter().any(|m| {
                            (m.span.start, m.span.end) == want
                                && m.message == l.message
                                && m.suggestions == l.suggestions
                        });
                        if !found {
                            out.violation(
                                0,
                                Violation {
                                    sig: format!("{}:shifted:lint-lost-or-moved", class_name(class)),
                                    case: self.case_json(fam, fe, &text2),
                                    detail: json!({"original_text": text, "original_lint": lint_json(l), "shift": shift,
                                        "shifted_lints": l3.iter().map(lint_json).collect::<Vec<_>>()}),
                                },
                            );
                            break;
                        }
                    }
                }
            }
        }
    }
}

pub fn class_name(c: Class) -> &'static str {
    match c {
        Class::Plain => "plain",
        Class::Markdown => "markdown",
        Class::Html => "html",
        Class::Typst => "typst",
        Class::Lhs => "lhaskell",
        Class::GitCommit => "gitcommit",
        Class::Comment => "comment",
    }
}

pub fn kind_ord(k: &TokenKind) -> u32 {
    match k {
        TokenKind::Word(_) => 0,
        TokenKind::Punctuation(_) => 1,
        TokenKind::Decade => 2,
        TokenKind::Number(_) => 3,
        TokenKind::Space(_) => 4,
        TokenKind::Newline(_) => 5,
        TokenKind::EmailAddress => 6,
        TokenKind::Url => 7,
        TokenKind::Hostname => 8,
        TokenKind::Unlintable => 9,
        TokenKind::ParagraphBreak => 10,
        TokenKind::Regexish => 11,
    }
}

/// Reference splice: text[..start] ++ r ++ text[end..]
pub fn ref_apply(text: &[char], start: usize, end: usize, s: &Suggestion) -> Vec<char> {
    let mut out: Vec<char> = text[..start].to_vec();
    match s {
        Suggestion::ReplaceWith(r) => out.extend(r.iter()),
        Suggestion::InsertAfter(r) => {
            out.extend(&text[start..end]);
            out.extend(r.iter());
        }
        Suggestion::Remove => {}
    }
    out.extend(&text[end..]);
    out
}

/// C03 oracle for one lint on `text`.
pub fn check_lint(text: &[char], l: &Lint) -> Option<(String, Value)> {
    if l.span.start > l.span.end {
        return Some(("lint-span-inverted".into(), json!({})));
    }
    if l.span.end > text.len() {
        return Some((
            "lint-span-out-of-bounds".into(),
            json!({"text_len": text.len()}),
        ));
    }
    for (i, s) in l.suggestions.iter().enumerate() {
        let expect = ref_apply(text, l.span.start, l.span.end, s);
        let mut got = text.to_vec();
        match catch(|| s.apply(l.span, &mut got)) {
            Err(p) => {
                return Some((
                    "suggestion-apply-panicked".into(),
                    json!({"suggestion": i, "panic": p.msg}),
                ));
            }
            Ok(()) => {
                if got != expect {
                    return Some((
                        "suggestion-not-local-splice".into(),
                        json!({"suggestion": i, "got": c2s(&got), "expected": c2s(&expect)}),
                    ));
                }
            }
        }
    }
    None
}

fn punct_ok(p: &Punctuation, txt: &[char], markup: bool) -> bool {
    let s: String = txt.iter().collect();
    let one = |opts: &[&str]| opts.contains(&s.as_str());
    match p {
        Punctuation::Ellipsis => {
            // In markup front-ends the periods of an ellipsis may be separated by markup that does
            // not render (an escape backslash, a comment): require only that it starts and ends
            // with a period there. In plain text it must be the mark itself.
            s == "…"
                || (txt.len() >= 2 && txt.iter().all(|c| *c == '.'))
                || (markup && txt.len() >= 2 && txt[0] == '.' && txt[txt.len() - 1] == '.')
        }
        Punctuation::EnDash => one(&["–"]),
        Punctuation::EmDash => one(&["—"]),
        Punctuation::Ampersand => one(&["&"]),
        Punctuation::Period => one(&["."]),
        Punctuation::Bang => one(&["!"]),
        Punctuation::Question => one(&["?"]),
        Punctuation::Colon => one(&[":"]),
        Punctuation::Semicolon => one(&[";"]),
        Punctuation::Quote(_) => one(&["\"", "“", "”"]),
        Punctuation::Comma => one(&[",", "、", "，"]),
        Punctuation::Hyphen => one(&["-"]),
        Punctuation::OpenSquare => one(&["["]),
        Punctuation::CloseSquare => one(&["]"]),
        Punctuation::OpenRound => one(&["("]),
        Punctuation::CloseRound => one(&[")"]),
        Punctuation::OpenCurly => one(&["{"]),
        Punctuation::CloseCurly => one(&["}"]),
        Punctuation::Hash => one(&["#"]),
        Punctuation::Apostrophe => one(&["'", "’"]),
        Punctuation::Percent => one(&["%"]),
        Punctuation::ForwardSlash => one(&["/"]),
        Punctuation::Backslash => one(&["\\"]),
        Punctuation::LessThan => one(&["<"]),
        Punctuation::GreaterThan => one(&[">"]),
        Punctuation::Equal => one(&["="]),
        Punctuation::Star => one(&["*"]),
        Punctuation::Tilde => one(&["~"]),
        Punctuation::At => one(&["@"]),
        Punctuation::Caret => one(&["^"]),
        Punctuation::Plus => one(&["+"]),
        Punctuation::Pipe => one(&["|"]),
        Punctuation::Underscore => one(&["_"]),
        // any single currency sign: not a letter, digit or blank
        Punctuation::Currency(_) => {
            txt.len() == 1 && !txt[0].is_alphanumeric() && !txt[0].is_whitespace()
        }
    }
}

fn suffix_letters(txt: &[char]) -> Option<&'static str> {
    if txt.len() < 2 {
        return None;
    }
    let a = txt[txt.len() - 2].to_ascii_lowercase();
    let b = txt[txt.len() - 1].to_ascii_lowercase();
    match (a, b) {
        ('s', 't') => Some("St"),
        ('n', 'd') => Some("Nd"),
        ('r', 'd') => Some("Rd"),
        ('t', 'h') => Some("Th"),
        _ => None,
    }
}

/// C02 oracle over one token list.
pub fn check_tokens(
    text: &[char],
    toks: &[Token],
    stage: &str,
    tiles: bool,
    is_document: bool,
    problems: &mut Vec<(String, Value)>,
) {
    let n = text.len();
    let mut prev_end = 0usize;
    let mut prev_i: Option<usize> = None;
    let mut cover = 0usize;
    let mut tiling_ok = true;
    for (i, t) in toks.iter().enumerate() {
        let (s, e) = (t.span.start, t.span.end);
        if s > e {
            problems.push((format!("{stage}:span-inverted"), json!({"token": i, "span":[s,e]})));
            return;
        }
        if s == e {
            if !matches!(t.kind, TokenKind::ParagraphBreak | TokenKind::Newline(_)) {
                problems.push((
                    format!("{stage}:zero-width-{}", kind_name(&t.kind)),
                    json!({"token": i, "span":[s,e]}),
                ));
            }
            continue;
        }
        if e > n {
            problems.push((
                format!("{stage}:out-of-bounds-{}", kind_name(&t.kind)),
                json!({"token": i, "span":[s,e], "text_len": n}),
            ));
            return;
        }
        if s < prev_end {
            let pk = prev_i.map(|p| kind_name(&toks[p].kind)).unwrap_or("-");
            let shape = match prev_i {
                Some(p) if toks[p].span == t.span => "duplicate-span",
                Some(p) if s < toks[p].span.start => "disorder",
                _ => "overlap",
            };
            problems.push((
                format!("{stage}:{shape}:{pk}+{}", kind_name(&t.kind)),
                json!({"token": i, "span":[s,e], "previous_token": prev_i, "previous_end": prev_end,
                       "kinds": [prev_i.map(|p| kind_name(&toks[p].kind)), Some(kind_name(&t.kind))]}),
            ));
            return;
        }
        if tiles && s != prev_end {
            tiling_ok = false;
        }
        cover += e - s;
        prev_end = e;
        prev_i = Some(i);
        let txt = &text[s..e];
        // shape by kind
        match &t.kind {
            TokenKind::Word(_) => {
                if txt.iter().any(|c| c.is_whitespace()) {
                    // cause class: the condensed Latin phrase is a documented single token
                    let low = c2s(txt).to_lowercase();
                    let parts: Vec<&str> = low.split_whitespace().collect();
                    let class = if parts == ["et", "al."] { "et-al" } else { "other" };
                    problems.push((format!("{stage}:shape-word-has-whitespace:{class}"), json!({"token": i, "text": c2s(txt)})));
                }
            }
            TokenKind::Space(_) => {
                if !txt.iter().all(|c| c.is_whitespace()) {
                    problems.push((format!("{stage}:shape-space-not-blank"), json!({"token": i, "text": c2s(txt)})));
                }
            }
            TokenKind::Number(num) => {
                let mut body: &[char] = txt;
                let mut ok = true;
                let mut why = "";
                if let Some(sfx) = num.suffix {
                    match suffix_letters(txt) {
                        Some(name) if name == format!("{sfx:?}") => {
                            body = &txt[..txt.len() - 2];
                            if body.last().map(|c| !c.is_ascii_digit()).unwrap_or(true) {
                                ok = false;
                                why = "suffix-not-directly-after-digits";
                            }
                        }
                        _ => {
                            ok = false;
                            why = "suffix-letters-not-at-end-of-token";
                        }
                    }
                } else if is_document && num.radix == 10 {
                    // a decimal number token that *ends* in ordinal letters must carry the suffix
                    // (only after condensing; the raw parse has them as separate tokens)
                }
                if ok {
                    let bs: String = body.iter().collect();
                    if num.radix == 16 {
                        let v = bs
                            .strip_prefix("0x")
                            .and_then(|h| u64::from_str_radix(h, 16).ok());
                        if v.map(|v| v as f64) != Some(num.value.0) {
                            ok = false;
                            why = "hex-value-mismatch";
                        }
                    } else if num.radix == 10 {
                        match bs.parse::<f64>() {
                            Ok(v) if v == num.value.0 || (v.is_nan() && num.value.0.is_nan()) => {}
                            _ => {
                                ok = false;
                                why = "decimal-value-mismatch";
                            }
                        }
                    } else {
                        ok = false;
                        why = "unknown-radix";
                    }
                }
                if !ok {
                    problems.push((
                        format!("{stage}:shape-number-{why}"),
                        json!({"token": i, "text": c2s(txt), "value": num.value.0, "suffix": format!("{:?}", num.suffix), "radix": num.radix}),
                    ));
                }
            }
            TokenKind::Punctuation(p) => {
                if !punct_ok(p, txt, !tiles) {
                    problems.push((
                        format!("{stage}:shape-punctuation-{}", format!("{p:?}").split('(').next().unwrap_or("")),
                        json!({"token": i, "text": c2s(txt), "punct": format!("{p:?}")}),
                    ));
                }
                if is_document {
                    if let Punctuation::Quote(q) = p {
                        if let Some(j) = q.twin_loc {
                            let good = toks.get(j).map(|tj| {
                                matches!(&tj.kind, TokenKind::Punctuation(Punctuation::Quote(qj)) if qj.twin_loc == Some(i))
                            }).unwrap_or(false);
                            if !good || j == i {
                                problems.push((format!("{stage}:quote-twin-dangling"), json!({"token": i, "twin": j})));
                            }
                        }
                    }
                }
            }
            TokenKind::Url | TokenKind::EmailAddress | TokenKind::Hostname => {
                // an address is one unbroken run of characters; an e-mail address has its '@'
                if txt.iter().any(|c| c.is_whitespace()) {
                    problems.push((format!("{stage}:shape-{}-has-whitespace", kind_name(&t.kind)), json!({"token": i, "text": c2s(txt)})));
                } else if matches!(t.kind, TokenKind::EmailAddress) && !txt.contains(&'@') {
                    problems.push((format!("{stage}:shape-email-without-at"), json!({"token": i, "text": c2s(txt)})));
                } else if matches!(t.kind, TokenKind::Url) && !txt.contains(&':') {
                    problems.push((format!("{stage}:shape-url-without-scheme"), json!({"token": i, "text": c2s(txt)})));
                }
            }
            _ => {}
        }
    }
    if tiles && (!tiling_ok || cover != n) {
        let rebuilt: String = toks
            .iter()
            .filter(|t| t.span.end <= n && t.span.start <= t.span.end)
            .flat_map(|t| text[t.span.start..t.span.end].iter())
            .collect();
        problems.push((
            format!("{stage}:plain-tiling-broken"),
            json!({"covered": cover, "text_len": n, "rebuilt": rebuilt}),
        ));
    }
}

pub fn kind_name(k: &TokenKind) -> &'static str {
    match k {
        TokenKind::Word(_) => "Word",
        TokenKind::Punctuation(_) => "Punctuation",
        TokenKind::Decade => "Decade",
        TokenKind::Number(_) => "Number",
        TokenKind::Space(_) => "Space",
        TokenKind::Newline(_) => "Newline",
        TokenKind::EmailAddress => "EmailAddress",
        TokenKind::Url => "Url",
        TokenKind::Hostname => "Hostname",
        TokenKind::Unlintable => "Unlintable",
        TokenKind::ParagraphBreak => "ParagraphBreak",
        TokenKind::Regexish => "Regexish",
    }
}


impl Sweep {
    fn recover_after_panic(&mut self) {
        // fes may have been taken when the panic unwound: rebuild
        if self.fes.is_empty() {
            self.fes = frontends::all();
        }
        // linters may hold half-updated state: drop them
        for l in self.linters.iter_mut() {
            *l = None;
        }
        self.default_linter = None;
        self.off_linter = None;
    }

    fn classify_panic(&mut self, fam: usize, fe: usize, text: &str, p: PanicInfo, out: &mut ChunkOut) {
        out.count("evaluations", 1);
        if self.mode != Mode::C01 {
            out.count("skipped_crashed(C01)", 1);
            return;
        }
        let class = self.fes[fe].class;
        let sig = format!("{}@{}", panic_sig(&p), class_name(class));
        let detail = if self.bisected.insert(sig.clone()) {
            self.bisect_panic(fe, text)
        } else {
            json!({})
        };
        out.violation(
            0,
            Violation {
                sig,
                case: self.case_json(fam, fe, text),
                detail: json!({"panic_at": format!("{}:{}", short_file(&p.file), p.line), "msg": p.msg.chars().take(300).collect::<String>(), "bisect": detail}),
            },
        );
    }

    /// Replay entry: run one (front-end, text) case without the explorer.
    pub fn run_text(&mut self, fe_name: &str, text: &str) -> Vec<Violation> {
        let Some(fe) = self.fes.iter().position(|f| f.name == fe_name) else {
            return vec![Violation { sig: "unknown-front-end".into(), case: json!({}), detail: json!({}) }];
        };
        let mut out = ChunkOut::default();
        let fam = 0;
        let mode = self.mode;
        let r = std::panic::catch_unwind(std::panic::AssertUnwindSafe(|| match mode {
            Mode::C01 => self.run_c01(fam, fe, text, &mut out),
            Mode::C02 => self.run_c02(fam, fe, text, &mut out),
            Mode::C03 => self.run_c03(fam, fe, text, &mut out),
        }));
        if r.is_err() {
            let p = take_panic();
            self.recover_after_panic();
            self.classify_panic(fam, fe, text, p, &mut out);
        }
        out.viols.into_values().map(|(_, _, v)| v).collect()
    }
}

impl Job for Sweep {
    fn n_cases(&self) -> u64 {
        self.space.len()
    }

    fn run_case(&mut self, idx: u64, out: &mut ChunkOut) {
        let (fam, fe, text) = self.case(idx);
        if idx % 50021 == 0 {
            out.sample(self.case_json(fam, fe, &text));
        }
        match self.mode {
            Mode::C01 => self.run_c01(fam, fe, &text, out),
            Mode::C02 => self.run_c02(fam, fe, &text, out),
            Mode::C03 => self.run_c03(fam, fe, &text, out),
        }
    }

    fn on_panic(&mut self, idx: u64, p: PanicInfo, out: &mut ChunkOut) {
        self.recover_after_panic();
        let (fam, fe, text) = self.case(idx);
        self.classify_panic(fam, fe, &text, p, out);
    }

    fn on_hang(&self, idx: u64, kind: &str) -> Option<Violation> {
        if self.mode != Mode::C01 {
            return None;
        }
        let (fam, fe, text) = self.case(idx);
        Some(Violation {
            // the input is part of the signature: a hang has no call site to name its cause by
            sig: format!("{kind}@{}:{}:{}", class_name(self.fes[fe].class), self.fes[fe].name, text.chars().take(32).flat_map(|c| c.escape_default()).collect::<String>()),
            case: self.case_json(fam, fe, &text),
            detail: json!({"kind": kind, "note": "case exceeded the hang budget or killed the worker process"}),
        })
    }

    fn describe(&self, idx: u64) -> Value {
        let (fam, fe, text) = self.case(idx);
        self.case_json(fam, fe, &text)
    }
}

// ---------------------------------------------------------------------------------------------
// C01 growth clause: pumped inputs u^n for every unit u of one or two alphabet tokens.

pub struct Ladder {
    pub tier: Tier,
    pub fes: Vec<FrontEnd>,
    /// (front-end index, unit); a unit may be written `prefix\u{1}unit`: the prefix is emitted
    /// once, the unit pumped (literals whose length is unbounded: `0x` + digits, `1e` + digits …)
    pub cases: Vec<(usize, String)>,
    pub curated: Arc<FstDictionary>,
    linter: Option<LintGroup>,
}

fn pump(unit: &str, n: usize) -> String {
    // `prefix \u{1} unit [\u{2} suffix]`
    match unit.split_once('\u{1}') {
        Some((pre, u)) => match u.split_once('\u{2}') {
            Some((u, suf)) => format!("{pre}{}{suf}", u.repeat(n)),
            None => format!("{pre}{}", u.repeat(n)),
        },
        None => unit.repeat(n),
    }
}

/// The pumped part of a prefixed literal, if it is a run of decimal digits: such literals get
/// lengths around 2^16 as well (counters kept in 16 bits, formatting precisions). Hex literals are
/// left out: beyond 16 digits they are one long *word*, whose spell check is linear but slow
/// (100 s at 80 000 characters) and would only exhaust the budget.
fn digit_literal(unit: &str) -> bool {
    match unit.split_once('\u{1}') {
        Some((pre, u)) => {
            let u = u.split_once('\u{2}').map(|x| x.0).unwrap_or(u);
            pre != "0x" && !u.is_empty() && u.chars().all(|c| c.is_ascii_digit())
        }
        None => false,
    }
}

impl Ladder {
    pub fn new(tier: Tier) -> Self {
        let fes = frontends::all();
        let mut cases = vec![];
        let add_units = |cases: &mut Vec<(usize, String)>, fe: usize, atoms: &[String], pairs: bool| {
            for a in atoms {
                cases.push((fe, a.clone()));
            }
            if pairs {
                for a in atoms {
                    for b in atoms {
                        if a != b {
                            cases.push((fe, format!("{a}{b}")));
                        }
                    }
                }
            }
        };
        for (i, f) in fes.iter().enumerate() {
            match f.name.as_str() {
                "plain" => {
                    add_units(&mut cases, i, &sigma_char(), tier == Tier::Thorough);
                    // long single tokens of every lexical class
                    for u in ["ab", "1", "a.", "a'", "x@", "a-", "e.g. ", "1st ", "the the ", "http://a.b/", "a@b.co ",
                        // runs of one bracket / mark, and of whole words, sentences, paragraphs
                        "(", ")", "!", "?", ";", "…", "$", "%", "&", "—", "(a", "a)", "\"a\" ", "(a) ", "a, ", "a; ", "A b. ", "a\n\n", "a b ", "Ab ", "a - ", "a ’", "I'm ", "U.S. ",
                        // literals of unbounded length behind a fixed prefix
                        "0x\u{1}F", "0x\u{1}1", "1\u{1}0", "1e\u{1}9", "1.\u{1}0", "$\u{1}9", "a@\u{1}b.", "http://\u{1}a/", "[\u{1}a-", "[a\u{1}-z", "\"\u{1}a ", "1\u{1}st", "1\u{1}s", "19\u{1}0s", "a\u{1}'s", "a'\u{1}a'",
                        // … and in front of what a rule renders the number for (currency, ordinal, unit)
                        "0.\u{1}0\u{2}$ a", "$0.\u{1}0\u{2} a", "1.\u{1}0\u{2}th a", "€1.\u{1}9\u{2}. A", "1.\u{1}0\u{2}1 %", "1\u{1}0\u{2}.5$"] {
                        cases.push((i, u.to_string()));
                    }
                }
                "markdown" => add_units(&mut cases, i, &sigma_md(), tier == Tier::Thorough),
                "html" => add_units(&mut cases, i, &sigma_html(), tier == Tier::Thorough),
                "typst" => add_units(&mut cases, i, &sigma_typst(), tier == Tier::Thorough),
                "lhaskell" => add_units(&mut cases, i, &sigma_lhs(), false),
                "comment:rust" | "comment:javascript" | "comment:python" | "comment:go" | "comment:java" => {
                    let lang = f.lang.unwrap();
                    add_units(&mut cases, i, &sigma_lang(lang), false);
                }
                "ls:rust" => {
                    let lang = f.lang.unwrap();
                    add_units(&mut cases, i, &sigma_lang(lang), false);
                }
                _ => {}
            }
        }
        Self { tier, fes, cases, curated: FstDictionary::curated(), linter: None }
    }

    fn time_once(&mut self, fe: usize, text: &str) -> f64 {
        let chars = s2c(text);
        let curated = self.curated.clone();
        // a fresh linter for every timing run: the spelling-suggestion and chunk caches of a warm
        // linter would make the second run of the same text free and the ladder meaningless
        self.linter = Some(all_on(Dialect::American, curated.clone()));
        let t0 = std::time::Instant::now();
        let (parser, dict) = self.fes[fe].prepare(&chars, &curated);
        let doc = Document::new(text, &parser, &dict);
        let _ = self.linter.as_mut().unwrap().lint(&doc);
        t0.elapsed().as_secs_f64()
    }
}

impl Job for Ladder {
    fn n_cases(&self) -> u64 {
        self.cases.len() as u64
    }
    fn run_case(&mut self, idx: u64, out: &mut ChunkOut) {
        let (fe, unit) = self.cases[idx as usize].clone();
        let max_pow = self.tier.pick(10, 13);
        let mut times: Vec<(usize, f64)> = vec![];
        // prefixed literals are also tried at every small length (thresholds such as 17 hex digits)
        let first_pow = if unit.contains('\u{1}') { 0 } else { 6 };
        for p in first_pow..=max_pow {
            let n = 1usize << p;
            let text = pump(&unit, n);
            if first_pow == 0 && p <= 5 {
                // every length between the powers of two as well, untimed
                for m in (1usize << p)..(2usize << p) {
                    let _ = self.time_once(fe, &pump(&unit, m));
                }
            }
            let mut best = f64::MAX;
            for _ in 0..2 {
                best = best.min(self.time_once(fe, &text));
                if best > 0.1 {
                    break; // large enough to be out of the timer noise: one run suffices
                }
            }
            times.push((n, best));
        }
        if digit_literal(&unit) {
            for m in [65_534usize, 65_535, 65_536, 65_537, 70_000] {
                let _ = self.time_once(fe, &pump(&unit, m));
                out.count("ladder_inputs_around_2^16", 1);
            }
        }
        out.count("evaluations", 1);
        out.count("distinct_nontrivial", 1);
        out.count("ladder_inputs_timed", times.len() as u64);
        // two successive doublings both growing faster than n^3.5, above a 50 ms floor
        let growth = |times: &[(usize, f64)]| -> Option<usize> {
            for (i, w) in times.windows(3).enumerate() {
                let r1 = w[1].1 / w[0].1.max(1e-9);
                let r2 = w[2].1 / w[1].1.max(1e-9);
                if r1 > 11.3 && r2 > 11.3 && w[2].1 > 0.05 {
                    return Some(i);
                }
            }
            None
        };
        let mut bad = false;
        if let Some(i) = growth(&times) {
            // timing verdicts are confirmed: measure the three inputs again (best of three) and
            // require the same pattern, so that scheduler noise on a loaded machine cannot raise it
            let mut again: Vec<(usize, f64)> = vec![];
            for (n, _) in &times[i..i + 3] {
                let text = pump(&unit, *n);
                let mut best = f64::MAX;
                for _ in 0..3 {
                    best = best.min(self.time_once(fe, &text));
                }
                again.push((*n, best));
            }
            if growth(&again).is_some() {
                bad = true;
                times.extend(again);
            }
        }
        let slowest = times.last().map(|t| t.1).unwrap_or(0.0);
        out.outcome(h64(&((slowest * 100.0) as u64).min(50)));
        if idx % 97 == 0 {
            out.sample(json!({"engine":"E1","front_end": self.fes[fe].name, "unit": unit, "timings_s": times}));
        }
        if bad {
            out.violation(
                idx,
                Violation {
                    sig: format!("super-polynomial-growth@{}", class_name(self.fes[fe].class)),
                    case: json!({"engine":"E1","front_end": self.fes[fe].name, "unit": unit, "text": format!("{unit} repeated n times")}),
                    detail: json!({"timings_s": times}),
                },
            );
        }
    }
    fn on_panic(&mut self, idx: u64, p: PanicInfo, out: &mut ChunkOut) {
        if self.fes.is_empty() {
            self.fes = frontends::all();
        }
        self.linter = None;
        let (fe, unit) = self.cases[idx as usize].clone();
        out.count("evaluations", 1);
        out.violation(
            idx,
            Violation {
                sig: format!("{}@{}:pumped", panic_sig(&p), class_name(self.fes[fe].class)),
                case: json!({"engine":"E1","front_end": self.fes[fe].name, "unit": unit, "text": format!("{unit} repeated up to 2^{} times", self.tier.pick(10, 13))}),
                detail: json!({"panic_at": format!("{}:{}", short_file(&p.file), p.line), "msg": p.msg.chars().take(300).collect::<String>()}),
            },
        );
    }
    fn on_hang(&self, idx: u64, kind: &str) -> Option<Violation> {
        let (fe, unit) = &self.cases[idx as usize];
        Some(Violation {
            sig: format!("{kind}@{}:pumped:{}", class_name(self.fes[*fe].class), unit.chars().flat_map(|c| c.escape_default()).collect::<String>()),
            case: json!({"engine":"E1","front_end": self.fes[*fe].name, "unit": unit, "text": format!("{unit} repeated up to 2^{} times", self.tier.pick(10, 13))}),
            detail: json!({"kind": kind, "note": "the ladder for this unit exceeded the time budget or killed the worker (allocation failure / stack overflow)"}),
        })
    }
    fn describe(&self, idx: u64) -> Value {
        let (fe, unit) = &self.cases[idx as usize];
        json!({"front_end": self.fes[*fe].name, "unit": unit})
    }
}
