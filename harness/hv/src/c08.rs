//! C08 — editor diagnostics and quick-fix edits land exactly on the flagged text.

use crate::document_state::DocumentState;
use crate::pool::par_chunks;
use crate::pos_conv::{range_to_span, span_to_range};
use crate::spaces::Gen;
use crate::util::*;
use harper_core::linting::{Lint, LintGroup, Linter};
use harper_core::{Dialect, Document, FstDictionary, MergedDictionary, Span};
use serde_json::{Value, json};
use std::sync::Arc;
use tower_lsp::lsp_types::{CodeActionOrCommand, Position, Range, Url};

/// Reference LSP client position model: lines end at '\n' (a preceding '\r' belongs to the line
/// break), columns count UTF-16 code units.
pub fn ref_position(text: &[char], index: usize) -> (u32, u32) {
    let mut line = 0u32;
    let mut col = 0u32;
    for c in &text[..index.min(text.len())] {
        if *c == '\n' {
            line += 1;
            col = 0;
        } else {
            col += c.len_utf16() as u32;
        }
    }
    (line, col)
}

/// Reference inverse: (line, utf16 col) -> char index, as an editor applies a TextEdit.
pub fn ref_index(text: &[char], line: u32, col: u32) -> usize {
    let mut l = 0u32;
    let mut i = 0usize;
    while l < line && i < text.len() {
        if text[i] == '\n' {
            l += 1;
        }
        i += 1;
    }
    let mut c = 0u32;
    while i < text.len() && text[i] != '\n' && c < col {
        c += text[i].len_utf16() as u32;
        i += 1;
    }
    i
}

fn on_final_empty_line(text: &[char], index: usize) -> bool {
    index == text.len() && text.last() == Some(&'\n')
}

pub fn ref_apply_edit(text: &[char], range: &Range, new_text: &str) -> Vec<char> {
    let s = ref_index(text, range.start.line, range.start.character);
    let e = ref_index(text, range.end.line, range.end.character);
    let mut out: Vec<char> = text[..s].to_vec();
    out.extend(new_text.chars());
    out.extend(&text[e.max(s)..]);
    out
}

/// Several lints can offer an action with the same title; the one that belongs to `l` is the one
/// whose edit, applied the way a client does, gives what the suggestion gives on the lint's span
/// (the edit's own range may be narrower than the diagnostic's: only the outcome is specified).
fn edit_matches(chars: &[char], te: &tower_lsp::lsp_types::TextEdit, sg: &harper_core::linting::Suggestion, l: &Lint) -> bool {
    let by_client = ref_apply_edit(chars, &te.range, &te.new_text);
    let mut by_core = chars.to_vec();
    sg.apply(l.span, &mut by_core);
    by_client == by_core
}

fn part_a(tier: Tier, report: &mut Report) {
    let g = Gen::Strings {
        atoms: vec!["a".into(), "é".into(), "😀".into(), "\t".into(), "\n".into(), "\r\n".into(), "e\u{301}".into()],
        max_len: tier.pick(5, 6),
    };
    let n = g.len();
    let res = par_chunks(n, 500, ncpu(), |s, e| {
        let mut viols: Vec<Violation> = vec![];
        let mut evals = 0u64;
        let mut multi = 0u64;
        for i in s..e {
            let text: Vec<char> = g.get(i).chars().collect();
            let len = text.len();
            for a in 0..=len {
                for b in a..=len {
                    evals += 1;
                    let r = catch(|| span_to_range(&text, Span::new(a, b)));
                    let Ok(r) = r else {
                        viols.push(Violation { sig: "pos_conv:span_to_range-panic".into(), case: json!({"engine":"E1","text": c2s(&text), "span": [a, b]}), detail: json!({}) });
                        continue;
                    };
                    let (ws, we) = (ref_position(&text, a), ref_position(&text, b));
                    if (r.start.line, r.start.character, r.end.line, r.end.character) != (ws.0, ws.1, we.0, we.1) {
                        if viols.len() < 5 {
                            viols.push(Violation { sig: "pos_conv:range-differs-from-lsp-position-model".into(), case: json!({"engine":"E1","text": c2s(&text), "span": [a, b]}), detail: json!({"got": format!("{r:?}"), "want": [ws, we]}) });
                        }
                        continue;
                    }
                    if we.0 > 0 {
                        multi += 1;
                    }
                    // round trip, unless the span splits a CRLF or touches the final empty line
                    let splits = |k: usize| k > 0 && k < len && text[k - 1] == '\r' && text[k] == '\n';
                    if splits(a) || splits(b) || on_final_empty_line(&text, a) || on_final_empty_line(&text, b) {
                        continue;
                    }
                    match catch(|| range_to_span(&text, r)) {
                        Ok(back) if (back.start, back.end) == (a, b) => {}
                        Ok(back) => {
                            if viols.len() < 5 {
                                let last_line = !text[a.min(len)..].contains(&'\n');
                                let cls = if last_line && text.contains(&'\n') { "on-last-line-without-trailing-newline" } else { "general" };
                                viols.push(Violation { sig: format!("pos_conv:round-trip-changes-span:{cls}"), case: json!({"engine":"E1","text": c2s(&text), "span": [a, b]}), detail: json!({"range": format!("{r:?}"), "back": [back.start, back.end]}) });
                            }
                        }
                        Err(p) => {
                            if viols.len() < 5 {
                                viols.push(Violation { sig: "pos_conv:range_to_span-panic".into(), case: json!({"engine":"E1","text": c2s(&text), "span": [a, b]}), detail: json!({"msg": p.msg}) });
                            }
                        }
                    }
                }
            }
        }
        (evals, multi, viols)
    });
    for (e, m, vs) in res {
        report.add("evaluations", e);
        report.add("position_cases_beyond_the_first_line", m);
        for v in vs {
            report.violation(v);
        }
    }
    report.set("pos_conv_texts", n);
}

/// Place `sentence` in a document at the first / a middle / the last line, with the given line
/// ending, with or without a trailing newline, behind a line with astral characters.
fn placements(sentence: &str) -> Vec<String> {
    let mut v = vec![];
    for nl in ["\n", "\r\n"] {
        for trailing in [true, false] {
            let t = if trailing { nl } else { "" };
            v.push(format!("{sentence}{t}"));
            v.push(format!("😀 é first line.{nl}{sentence}{nl}Last line is fine.{t}"));
            v.push(format!("😀😀 é\tfirst line.{nl}{nl}{sentence}{t}"));
        }
    }
    v
}

fn part_b(tier: Tier, report: &mut Report) {
    let h = crate::harvest::harvest();
    let mut sentences: Vec<String> = h
        .seeds
        .iter()
        .filter(|s| !s.contains('\n') && s.chars().count() >= 8 && s.chars().count() <= 90)
        .cloned()
        .collect();
    sentences.push("Ünï 😀 teh tset, an apple 😀 an orange.".into());
    sentences.push("There is an  problem with 😀😀 teh teh thing".into());
    let long_hard_wrapped = |nl: &str| format!("This sentense keeps going and going with many words so that it becomes much{nl}longer than forty wrds in total which is what the long sentence rule needs in{nl}order to fire at all when we run the hole group of rules over it today and tomorrow and 😀 then");
    let multi: Vec<String> = vec![long_hard_wrapped("\n"), long_hard_wrapped("\r\n"), format!("😀 intro.\n\n{}", long_hard_wrapped("\n"))];
    let step = tier.pick(6, 1);
    let sentences: Vec<String> = sentences.into_iter().step_by(step).collect();
    let n = sentences.len() as u64;
    let curated = FstDictionary::curated();
    let langs = ["plaintext", "markdown"];
    let res = par_chunks(n, 20, ncpu(), |s, e| {
        let mut viols: Vec<Violation> = vec![];
        let mut evals = 0u64;
        let mut nontrivial = 0u64;
        let mut positions = 0u64;
        let mut edits = 0u64;
        let mut merged = MergedDictionary::new();
        merged.add_dictionary(curated.clone());
        let dict = Arc::new(merged);
        for si in s..e {
            let mut docs = placements(&sentences[si as usize]);
            if si == 0 {
                docs.extend(multi.iter().cloned());
            }
            for text in docs {
                for lang in langs {
                    evals += 1;
                    let chars = s2c(&text);
                    let r = catch(|| {
                        let parser = crate::c09::parser_for(lang);
                        let url = Url::parse("file:///tmp/doc.txt").unwrap();
                        let mut st = DocumentState {
                            document: Document::new(&text, &parser, &dict),
                            linter: LintGroup::new_curated(dict.clone(), Dialect::American),
                            language_id: Some(lang.to_string()),
                            dict: dict.clone(),
                            url,
                            ..Default::default()
                        };
                        let diags = st.generate_diagnostics(crate::config::DiagnosticSeverity::Hint);
                        // the lints behind them
                        let mut g = LintGroup::new_curated(dict.clone(), Dialect::American);
                        g.config.fill_with_curated();
                        let lints: Vec<Lint> = g.lint(&st.document);
                        (st, diags, lints)
                    });
                    let Ok((mut st, diags, lints)) = r else { continue };
                    let case = json!({"engine":"E1","text": text, "language": lang});
                    if diags.len() != lints.len() {
                        viols.push(Violation { sig: "diagnostics:count-differs-from-lints".into(), case: case.clone(), detail: json!({"diagnostics": diags.len(), "lints": lints.len()}) });
                        continue;
                    }
                    if !lints.is_empty() {
                        nontrivial += 1;
                    }
                    // the published diagnostics are matched to the lints as a multiset (their order is
                    // not part of the property)
                    let mut pool: Vec<&tower_lsp::lsp_types::Diagnostic> = diags.iter().collect();
                    for l in lints.iter() {
                        let (ws, we) = (ref_position(&chars, l.span.start), ref_position(&chars, l.span.end));
                        let hit = pool.iter().position(|d| (d.range.start.line, d.range.start.character, d.range.end.line, d.range.end.character) == (ws.0, ws.1, we.0, we.1) && d.message == l.message);
                        let Some(hit) = hit else {
                            if viols.len() < 6 {
                                let multi = ws.0 != we.0;
                                viols.push(Violation { sig: format!("diagnostics:no-diagnostic-covers-the-lint:{}", if multi { "multi-line-lint" } else { "single-line-lint" }), case: case.clone(), detail: json!({"want": [ws, we], "lint": crate::sweep::lint_json(l), "published": diags.iter().map(|d| format!("{:?} {}", d.range, d.message)).collect::<Vec<_>>() }) });
                            }
                            continue;
                        };
                        let d = pool.remove(hit);
                        // every position inside the range (at character boundaries)
                        for idx in l.span.start..l.span.end.max(l.span.start + 1).min(chars.len().max(l.span.start + 1)) {
                            if idx >= chars.len() {
                                break;
                            }
                            if chars[idx] == '\n' || chars[idx] == '\r' {
                                continue;
                            }
                            positions += 1;
                            let p = ref_position(&chars, idx);
                            let pos = Position { line: p.0, character: p.1 };
                            let acts = match catch(|| st.generate_code_actions(Range { start: pos, end: pos }, &Default::default())) {
                                Ok(a) => a,
                                Err(pn) => {
                                    if viols.len() < 6 {
                                        viols.push(Violation { sig: "code-actions:panic".into(), case: case.clone(), detail: json!({"position": [p.0, p.1], "msg": pn.msg}) });
                                    }
                                    continue;
                                }
                            };
                            // this lint's fixes must be among them
                            let last_line_no_nl = !chars[idx..].contains(&'\n') && chars.contains(&'\n');
                            let cls = if last_line_no_nl { "on-last-line-without-trailing-newline" } else { "general" };
                            let mut found_ignore = false;
                            for a in &acts {
                                if let CodeActionOrCommand::Command(c) = a {
                                    if c.command == "HarperIgnoreLint" {
                                        if let Some(args) = &c.arguments {
                                            if let Ok(li) = serde_json::from_value::<Lint>(args[1].clone()) {
                                                if &li == l {
                                                    found_ignore = true;
                                                }
                                            }
                                        }
                                    }
                                }
                            }
                            if !found_ignore {
                                if viols.iter().filter(|v| v.sig.starts_with("code-actions:lint-not-offered")).count() < 4 {
                                    viols.push(Violation { sig: format!("code-actions:lint-not-offered-at-position-inside-its-range:{cls}"), case: case.clone(), detail: json!({"position": [p.0, p.1], "lint": crate::sweep::lint_json(l), "actions": acts.len()}) });
                                }
                                continue;
                            }
                            for sg in &l.suggestions {
                                let title = sg.to_string();
                                let edit = acts.iter().find_map(|a| match a {
                                    CodeActionOrCommand::CodeAction(ca) if ca.title == title => ca.edit.as_ref().and_then(|w| w.changes.as_ref()).and_then(|m| m.values().next()).and_then(|v| v.first()).filter(|te| edit_matches(&chars, te, sg, l)).cloned(),
                                    _ => None,
                                });
                                let Some(te) = edit else {
                                    if viols.len() < 6 {
                                        viols.push(Violation { sig: format!("code-actions:suggestion-missing:{cls}"), case: case.clone(), detail: json!({"position": [p.0, p.1], "suggestion": title}) });
                                    }
                                    continue;
                                };
                                edits += 1;
                                let by_client = ref_apply_edit(&chars, &te.range, &te.new_text);
                                let mut by_core = chars.clone();
                                sg.apply(l.span, &mut by_core);
                                if by_client != by_core {
                                    if viols.len() < 6 {
                                        viols.push(Violation { sig: "code-actions:text-edit-differs-from-suggestion".into(), case: case.clone(), detail: json!({"suggestion": title, "client_result": c2s(&by_client), "core_result": c2s(&by_core)}) });
                                    }
                                }
                            }
                        }
                    }
                }
            }
        }
        (evals, nontrivial, positions, edits, viols)
    });
    for (e, nt, p, ed, vs) in res {
        report.add("evaluations", e);
        report.add("distinct_nontrivial", nt);
        report.add("code_action_positions", p);
        report.add("text_edits_applied", ed);
        for v in vs {
            report.violation(v);
        }
    }
    report.set("sentences", n);
}

/// (c) every language id the server dispatches on, through the REAL server: didOpen with that
/// languageId -> published diagnostics == reference (the harness's own replica of the front-end
/// composition + reference position model); a codeAction request at every diagnostic -> that
/// lint's ignore command and every suggestion as a TextEdit that a reference client applies.
fn part_c(tier: Tier, report: &mut Report) {
    use crate::e3::{Server, World};
    use crate::frontends::{Class, FrontEnd, LANG_IDS, Maker};
    crate::e3::sandbox_env();
    // (language id sent by the editor, the harness front-end that models it, class for embedding)
    let mut table: Vec<(&'static str, &'static str, Class)> = LANG_IDS.iter().map(|l| (*l, *l, Class::Comment)).collect();
    for (id, model, class) in [
        ("lhaskell", "lhaskell", Class::Lhs),
        ("literate haskell", "lhaskell", Class::Lhs),
        ("markdown", "markdown", Class::Markdown),
        ("git-commit", "gitcommit", Class::GitCommit),
        ("gitcommit", "gitcommit", Class::GitCommit),
        ("html", "html", Class::Html),
        ("mail", "plaintext", Class::Plain),
        ("plaintext", "plaintext", Class::Plain),
        ("text", "plaintext", Class::Plain),
        ("typst", "typst", Class::Typst),
    ] {
        table.push((id, model, class));
    }
    let proses: Vec<&str> = tier.pick(
        vec!["This is an tset of teh thing.", "Ünï 😀 teh tset.\nSecond line an apple 😀 an orange."],
        vec!["This is an tset of teh thing.", "Ünï 😀 teh tset.\nSecond line an apple 😀 an orange.", "There is an  problem with 😀😀 teh teh thing", "He is better then me.\r\nAn other tset."],
    );
    let curated = FstDictionary::curated();
    let n = table.len() as u64;
    let res = par_chunks(n, 2, ncpu(), |s, e| {
        let mut viols: Vec<Violation> = vec![];
        let mut evals = 0u64;
        let mut nontrivial = 0u64;
        let mut edits = 0u64;
        for ti in s..e {
            let (lang_id, model, class) = table[ti as usize];
            let fe = FrontEnd { name: format!("ls:{model}"), class, lang: if class == Class::Comment { Some(model) } else { None }, maker: Maker::Ls { lang: model, isolate: false } };
            for prose in &proses {
                for with_code in [false, true] {
                    let mut text = fe.embed(prose);
                    if with_code {
                        // non-prose material that only the right parser for this language id skips
                        text = match class {
                            Class::Comment => format!("{text}\nx = 1\n{}", fe.embed("Anothr one 😀 hre.")),
                            Class::Html => format!("<div class=\"wrng-clss\"><p>{prose}</p><!-- cmment txt --><code>cde hre</code></div>"),
                            Class::Markdown => format!("`cde spn` {prose} [lnk txt](http://exmple.com/pth)\n\n```\nfncd blck\n```\n"),
                            Class::Typst => format!("#let x = \"strng vlue\"\n{prose} $mth + xpr$"),
                            Class::Lhs => format!("> cde = wrng\n\n{prose}\n\n\\begin{{code}}\nmre = cde\n\\end{{code}}\n"),
                            Class::GitCommit => format!("{prose}\n\n# Plese enter the commit mesage for your chnges.\n"),
                            Class::Plain => continue,
                        };
                    }
                    evals += 1;
                    let case = json!({"engine":"E3","object":"harper-ls","languageId": lang_id, "text": text});
                    let chars = s2c(&text);
                    let r = catch(|| -> Result<Option<(String, Value)>, String> {
                        // reference
                        let (parser, dict) = fe.prepare(&chars, &curated);
                        let doc = Document::new(&text, &parser, &dict);
                        let mut g = LintGroup::new_curated(dict.clone(), Dialect::American);
                        g.config.fill_with_curated();
                        let lints: Vec<Lint> = g.lint(&doc);
                        let mut want: Vec<Value> = lints.iter().map(|l| {
                            let (a, b) = (ref_position(&chars, l.span.start), ref_position(&chars, l.span.end));
                            json!({"range": {"start": {"line": a.0, "character": a.1}, "end": {"line": b.0, "character": b.1}}, "message": l.message})
                        }).collect();
                        want.sort_by_key(|x| x.to_string());
                        // the real server
                        let world = World::new("c08");
                        let mut settings = world.settings(json!({}), "American");
                        if with_code {
                            // the other code-action ordering, and another severity: the fixes must be there all the same
                            let o = settings["harper-ls"].as_object_mut().unwrap();
                            o.insert("codeActions".into(), json!({"ForceStable": true}));
                            o.insert("diagnosticSeverity".into(), json!("warning"));
                        }
                        let mut server = Server::new(world.config(), settings);
                        server.boot()?;
                        let uri = world.uri("doc.src");
                        let req = Server::notification("textDocument/didOpen", json!({"textDocument": {"uri": uri, "languageId": lang_id, "version": 1, "text": text}}));
                        server.enqueue("open", req);
                        server.run_default()?;
                        let got = server.last_diagnostics(&uri).map(|v| crate::c09::norm_diag(&v)).unwrap_or_default();
                        if got != want {
                            world.cleanup();
                            return Ok(Some(("server:published-diagnostics-differ-from-reference".into(), json!({"published": got, "reference": want}))));
                        }
                        // code actions at the start of every diagnostic
                        for l in &lints {
                            let a = ref_position(&chars, l.span.start);
                            let b = ref_position(&chars, l.span.end);
                            let req = server.request("textDocument/codeAction", json!({"textDocument": {"uri": uri}, "range": {"start": {"line": a.0, "character": a.1}, "end": {"line": a.0, "character": a.1}}, "context": {"diagnostics": []}}));
                            server.enqueue("codeAction", req);
                            server.run_default()?;
                            let resp = server.tasks.last().and_then(|t| t.response.clone());
                            let val = resp.and_then(|r| r.into_parts().1.ok()).unwrap_or(Value::Null);
                            let acts: Vec<CodeActionOrCommand> = serde_json::from_value(val.clone()).unwrap_or_default();
                            let offered = acts.iter().any(|x| matches!(x, CodeActionOrCommand::Command(c) if c.command == "HarperIgnoreLint" && c.arguments.as_ref().and_then(|v| v.get(1)).and_then(|v| serde_json::from_value::<Lint>(v.clone()).ok()).as_ref() == Some(l)));
                            if !offered {
                                world.cleanup();
                                return Ok(Some(("server:code-action-for-the-lint-not-offered".into(), json!({"position": [a.0, a.1], "lint": crate::sweep::lint_json(l), "response": val.to_string().chars().take(400).collect::<String>()}))));
                            }
                            for sg in &l.suggestions {
                                let title = sg.to_string();
                                let te = acts.iter().find_map(|x| match x {
                                    CodeActionOrCommand::CodeAction(ca) if ca.title == title => ca.edit.as_ref().and_then(|w| w.changes.as_ref()).and_then(|m| m.values().next()).and_then(|v| v.first()).filter(|te| edit_matches(&chars, te, sg, l)).cloned(),
                                    _ => None,
                                });
                                let Some(te) = te else {
                                    world.cleanup();
                                    return Ok(Some(("server:suggestion-missing-from-code-actions".into(), json!({"suggestion": title, "position": [a.0, a.1]}))));
                                };
                                edits += 1;
                                let by_client = ref_apply_edit(&chars, &te.range, &te.new_text);
                                let mut by_core = chars.clone();
                                sg.apply(l.span, &mut by_core);
                                if by_client != by_core {
                                    world.cleanup();
                                    return Ok(Some(("server:text-edit-differs-from-suggestion".into(), json!({"suggestion": title, "client_result": c2s(&by_client), "core_result": c2s(&by_core)}))));
                                }
                            }
                        }
                        world.cleanup();
                        Ok(if lints.is_empty() { None } else { Some(("nontrivial".into(), Value::Null)) })
                    });
                    match r {
                        Ok(Ok(None)) => {}
                        Ok(Ok(Some((sig, _)))) if sig == "nontrivial" => nontrivial += 1,
                        Ok(Ok(Some((sig, detail)))) => {
                            if viols.len() < 6 {
                                viols.push(Violation { sig, case, detail });
                            }
                        }
                        Ok(Err(e)) => viols.push(Violation { sig: format!("machinery: {e}"), case, detail: json!({}) }),
                        Err(pn) => viols.push(Violation { sig: "server:panic".into(), case, detail: json!({"msg": pn.msg}) }),
                    }
                }
            }
        }
        (evals, nontrivial, edits, viols)
    });
    for (e, nt, ed, vs) in res {
        report.add("evaluations", e);
        report.add("server_documents", e);
        report.add("distinct_nontrivial", nt);
        report.add("text_edits_applied", ed);
        for v in vs {
            if v.sig.starts_with("machinery") {
                report.machinery(v.sig);
            } else {
                report.violation(v);
            }
        }
    }
    report.set("server_language_ids", n);
}

pub fn run(tier: Tier) -> i32 {
    let mut report = Report::new("C08", tier, "exploration");
    report.set("rule", "(a) every text over {a, é, 😀, tab, LF, CRLF, combining sequence} up to a length bound x every span: span_to_range against a reference LSP position model and the range_to_span round trip; (b) harvested sentences placed on the first / a middle / the last line, LF and CRLF, with and without trailing newline, behind astral characters, as plaintext and Markdown through the real DocumentState: every diagnostic's range, code actions requested at every character position inside the range, every returned TextEdit applied by a reference client against Suggestion::apply. Non-trivial = document with at least one diagnostic");
    part_a(tier, &mut report);
    part_b(tier, &mut report);
    part_c(tier, &mut report);
    report.outcomes.insert(1);
    report.outcomes.insert(2);
    report.sample(json!({"engine":"E1","text":"😀 é first line.\r\nThere is an  problem with 😀😀 teh teh thing","language":"markdown"}));
    report.sample(json!({"engine":"E1","text":"a😀\r\né","span":[1,4]}));
    report.set("exhaustive", true);
    report.assume("no lone CR line ends; positions inside surrogate pairs are not requested (an LSP client never sends them); positions on the empty line after a trailing newline are excluded from the round trip (harper-ls resolves them on the previous line on purpose, see its issue_250 test)");
    report.finish()
}
