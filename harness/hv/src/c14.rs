//! C14 — ignoring a lint hides that lint, only that lint, and keeps hiding it (engine E2).

use crate::pool::par_chunks;
use crate::sweep::{all_on, lint_json};
use crate::util::*;
use harper_core::linting::{Lint, LintGroup, Linter};
use harper_core::parsers::{Markdown, Parser, PlainEnglish};
use harper_core::{Dialect, Document, FstDictionary, IgnoredLints, Token};
use serde_json::{Value, json};
use std::collections::BTreeSet;
use std::sync::Arc;

type Ident = (String, String, String, u8); // kind, message, suggestions, priority
fn ident(l: &Lint) -> Ident {
    (
        format!("{:?}", l.lint_kind),
        l.message.clone(),
        l.suggestions.iter().map(|s| s.to_string()).collect::<Vec<_>>().join("|"),
        l.priority,
    )
}

/// Reference context of a lint: the flagged tokens and the tokens within two characters before
/// and after it, as (text, kind name) — no positions, no token indices.
fn ref_context(doc: &Document, l: &Lint, generous: bool) -> Vec<(String, &'static str, u8)> {
    let src = doc.get_source();
    let (s, e) = (l.span.start, l.span.end);
    let mut out = vec![];
    let hit = |t: &Token, a: usize, b: usize| t.span.start < b && a < t.span.end;
    for t in doc.get_tokens() {
        if t.span.start > t.span.end || t.span.end > src.len() {
            continue;
        }
        if t.span.start == t.span.end {
            // zero-width structural token: part of the neighbourhood when it sits in or at the
            // edge of a window (generous: an unmet premise only skips the case)
            let p = t.span.start;
            if generous && p + 2 >= s && p <= e + 2 {
                out.push((String::new(), crate::sweep::kind_name(&t.kind), 3));
            }
            continue;
        }
        let txt: String = src[t.span.start..t.span.end].iter().collect();
        if s >= 1 && hit(t, s.saturating_sub(2), s) {
            out.push((txt.clone(), crate::sweep::kind_name(&t.kind), 0));
        }
        if hit(t, s, e) {
            out.push((txt.clone(), crate::sweep::kind_name(&t.kind), 1));
        }
        if hit(t, e, e + 2) {
            out.push((txt, crate::sweep::kind_name(&t.kind), 2));
        }
    }
    out
}

#[derive(Clone, Debug)]
struct Edit {
    name: &'static str,
    /// char position, chars removed, inserted text
    at: usize,
    remove: usize,
    insert: String,
}

fn apply_edit(text: &[char], e: &Edit) -> Vec<char> {
    let mut out: Vec<char> = text[..e.at].to_vec();
    out.extend(e.insert.chars());
    out.extend(&text[e.at + e.remove..]);
    out
}

/// New position of `pos` after the edit, or None if the edit touches it.
fn shift(pos_start: usize, pos_end: usize, e: &Edit) -> Option<(usize, usize)> {
    let ins = e.insert.chars().count();
    if e.at + e.remove <= pos_start {
        Some((pos_start + ins - e.remove, pos_end + ins - e.remove))
    } else if e.at >= pos_end {
        Some((pos_start, pos_end))
    } else {
        None
    }
}

/// Edits that leave the lint's neighbourhood alone (checked, not assumed, by comparing contexts).
fn edits_for(doc: &Document, l: &Lint) -> Vec<Edit> {
    let n = doc.get_source().len();
    let mut v = vec![
        Edit { name: "prepend-word", at: 0, remove: 0, insert: "Well, ".into() },
        Edit { name: "prepend-sentence", at: 0, remove: 0, insert: "Hello there. ".into() },
        Edit { name: "prepend-quoted-sentence", at: 0, remove: 0, insert: "He said \"hi\" to me. ".into() },
        Edit { name: "prepend-one-quote", at: 0, remove: 0, insert: "The \" sign. ".into() },
        Edit { name: "insert-paragraph-before", at: 0, remove: 0, insert: "Ünï 😀 intro paragraph.\n\n".into() },
        Edit { name: "append", at: n, remove: 0, insert: " And more text follows".into() },
        Edit { name: "append-paragraph-with-quote", at: n, remove: 0, insert: "\n\nShe said \"bye\".".into() },
    ];
    // change a word at least three characters away on either side / the nearest token outside two
    let toks = doc.get_tokens();
    let words: Vec<&Token> = toks.iter().filter(|t| t.kind.is_word() && t.span.end <= n).collect();
    if let Some(t) = words.iter().rev().find(|t| t.span.end + 3 <= l.span.start) {
        v.push(Edit { name: "change-word-before", at: t.span.start, remove: t.span.len(), insert: "zebra".into() });
    }
    if let Some(t) = words.iter().find(|t| t.span.start >= l.span.end + 3) {
        v.push(Edit { name: "change-word-after", at: t.span.start, remove: t.span.len(), insert: "walrus".into() });
    }
    if let Some(t) = toks.iter().rev().find(|t| t.span.end + 2 <= l.span.start && t.span.len() > 0 && t.kind.is_word()) {
        v.push(Edit { name: "change-nearest-token-outside-before", at: t.span.start, remove: t.span.len(), insert: "okapi".into() });
    }
    if let Some(t) = toks.iter().find(|t| t.span.start >= l.span.end + 2 && t.span.len() > 0 && t.kind.is_word()) {
        v.push(Edit { name: "change-nearest-token-outside-after", at: t.span.start, remove: t.span.len(), insert: "ibis".into() });
    }
    v
}

pub fn documents(tier: Tier) -> Vec<(String, bool, bool)> {
    let mut v = documents_base(tier).into_iter().map(|(t, md)| (t, md, false)).collect::<Vec<_>>();
    // the same misspelling in two neighbourhoods that differ only in how often a neighbouring
    // token repeats, what kind it is, or how wide a blank is — every pair of (left, right)
    // neighbourhoods; the second occurrence ends the document, so its window holds nothing else
    let lefts = ["", "(", "((", "\"", "a ", "a  "];
    let rights = ["", "!", "!!", ".", "..", "?", "??", ")", "))", " a", ",", ",,"];
    let _ = tier;
    for l1 in lefts {
        for r1 in rights {
            for l2 in lefts {
                for r2 in rights {
                    if (l1, r1) != (l2, r2) {
                        v.push((format!("Well {l1}mistke{r1} Nobody saw it.\n\nWhat {l2}mistke{r2}"), false, true));
                    }
                }
            }
        }
    }
    // lints that cover many tokens: two over-long sentences that differ in exactly one word, at
    // every position of the sentence (a context digest that samples the flagged text instead of
    // reading all of it cannot tell them apart)
    let words: Vec<&str> = "we walked along the river past an old mill and over a stone bridge while our friends carried bread cheese apples water maps blankets lanterns ropes and two small tents toward that quiet green valley where nobody had camped before this long summer".split(' ').collect();
    for p in 0..words.len() {
        let mut other = words.clone();
        other[p] = if p == 0 { "they" } else { "yellow" };
        let cap = |w: &[&str]| {
            let mut s = w.join(" ");
            s[..1].make_ascii_uppercase();
            s
        };
        v.push((format!("Note. {}. Note. {}. Note.", cap(&words), cap(&other)), false, p % 6 != 0));
    }
    v
}

fn documents_base(tier: Tier) -> Vec<(String, bool)> {
    let h = crate::harvest::harvest();
    let mut v: Vec<(String, bool)> = vec![];
    for t in [
        // nearly identical lints: same word, different neighbours; same neighbours, different message
        "I saw teh cat and then teh dog near teh cat.",
        "There is an problem here and an problem there, an problem everywhere.",
        "He said \"an problem\" here. Then an problem there.",
        "This is an test. This is an test.",
        "the teh cat. the teh dog.",
        "We want too go too the store, too.",
        "A apple, a orange and a apple.",
        "I has teh book; you has teh pen.",
        "Teh end. teh end.",
    ] {
        v.push((t.to_string(), false));
    }
    v.push(("He is *better then* me and she is better then him. An **problem**, a problem.".into(), true));
    // lints one character into the document (behind an opening quote / bracket)
    v.push(("“that that” sometimes means “that which”, and teh rest.".into(), true));
    v.push(("(teh cat) sat on teh mat.".into(), true));
    v.push(("\"an problem\" here and an problem there.".into(), false));
    for s in h.seeds.iter().filter(|s| s.chars().count() >= 12 && s.chars().count() <= 200) {
        v.push((s.clone(), false));
        if tier == Tier::Thorough || s.contains('*') || s.contains('`') {
            v.push((s.clone(), true));
        }
    }
    // two seeds joined: more lints per document, lints of the same rule in different neighbourhoods
    let mid: Vec<&String> = h.seeds.iter().filter(|s| s.chars().count() >= 15 && s.chars().count() <= 60 && s.ends_with('.')).collect();
    let step = tier.pick(7, 1);
    for i in (0..mid.len().saturating_sub(1)).step_by(step) {
        v.push((format!("{} {}", mid[i], mid[i + 1]), false));
        v.push((format!("{} {}", mid[i], mid[i]), false));
    }
    v
}

struct Ctx {
    dict: Arc<FstDictionary>,
    group: LintGroup,
    nonce: u64,
}

impl Ctx {
    fn parse(&self, text: &str, md: bool) -> Document {
        if md {
            Document::new(text, &Markdown::default(), &*self.dict)
        } else {
            Document::new(text, &PlainEnglish, &*self.dict)
        }
    }
    fn lint(&mut self, doc: &Document) -> Vec<Lint> {
        crate::c12::lint_uncached(&mut self.group, doc, &mut self.nonce)
    }
}

fn check_doc(cx: &mut Ctx, text: &str, md: bool, light: bool, tier: Tier, viols: &mut Vec<Violation>) -> (u64, u64, u64) {
    let mut transitions = 0u64;
    let mut traces = 0u64;
    let mut nontrivial = 0u64;
    let doc = cx.parse(text, md);
    let lints = cx.lint(&doc);
    if lints.len() < 2 {
        return (0, 0, 0);
    }
    let chars = s2c(text);
    let case = |extra: Value| json!({"engine":"E2","object":"IgnoredLints","text": text, "markdown": md, "history": extra});
    let mut push = |sig: String, case: Value, detail: Value, viols: &mut Vec<Violation>| {
        if viols.iter().filter(|v| v.sig == sig).count() < 3 {
            viols.push(Violation { sig, case, detail });
        } else {
            viols.push(Violation { sig, case: json!({"pad": "further case ......................................................................................................................................................................................................................................................"}), detail: json!({}) });
        }
    };
    let ctxs: Vec<_> = lints.iter().map(|l| ref_context(&doc, l, false)).collect();
    let gctxs: Vec<_> = lints.iter().map(|l| ref_context(&doc, l, true)).collect();
    for (k, x) in lints.iter().enumerate() {
        traces += 1;
        let mut ig = IgnoredLints::new();
        ig.ignore_lint(x, &doc);
        transitions += 1;
        // (a)+(d) same text
        let mut rest = lints.clone();
        ig.remove_ignored(&mut rest, &doc);
        if rest.iter().any(|l| l == x) {
            push("ignored-lint-still-reported".into(), case(json!([format!("ignore lint {k}")])), json!({"lint": lint_json(x)}), viols);
        }
        for (j, y) in lints.iter().enumerate() {
            if j == k || y == x {
                continue;
            }
            let differs = ident(y) != ident(x) || ctxs[j] != ctxs[k];
            if differs && !rest.iter().any(|l| l == y) {
                nontrivial += 1;
                let why = if ident(y) != ident(x) { "different-lint" } else { "same-lint-different-neighbours" };
                push(format!("other-lint-hidden:{why}"), case(json!([format!("ignore lint {k}")])), json!({"ignored": lint_json(x), "hidden": lint_json(y), "context_ignored": ctxs[k], "context_hidden": ctxs[j]}), viols);
            }
        }
        // (e) serialisation round trip is the identity on behaviour
        let js = serde_json::to_string(&ig).unwrap();
        let back: Result<IgnoredLints, _> = serde_json::from_str(&js);
        let Ok(back) = back else {
            push("ignore-list-json-unreadable".into(), case(json!([format!("ignore lint {k}"), "export/import"])), json!({"json": js}), viols);
            continue;
        };
        let mut rest2 = lints.clone();
        back.remove_ignored(&mut rest2, &doc);
        transitions += 1;
        if rest2 != rest {
            push("export-import-changes-filtering".into(), case(json!([format!("ignore lint {k}"), "export/import"])), json!({"before": rest.len(), "after": rest2.len()}), viols);
        }
        // (c) stays ignored under edits elsewhere
        let e1 = if light { vec![] } else { edits_for(&doc, x) };
        let mut edit_seqs: Vec<Vec<Edit>> = e1.iter().map(|e| vec![e.clone()]).collect();
        if tier == Tier::Thorough {
            for a in &e1 {
                for b in &e1 {
                    if a.name != b.name && a.at == 0 && b.remove == 0 && b.at != 0 {
                        edit_seqs.push(vec![b.clone(), a.clone()]); // append first, then prepend: positions stay valid
                    }
                }
            }
        }
        for es in edit_seqs {
            let mut t2 = chars.clone();
            let mut pos = Some((x.span.start, x.span.end));
            for e in &es {
                if e.at + e.remove > t2.len() {
                    pos = None;
                    break;
                }
                pos = pos.and_then(|(s, en)| shift(s, en, e));
                t2 = apply_edit(&t2, e);
            }
            let Some((ns, ne)) = pos else { continue };
            let text2 = c2s(&t2);
            let doc2 = cx.parse(&text2, md);
            let l2 = cx.lint(&doc2);
            transitions += es.len() as u64 + 1;
            // the corresponding lint must exist in the edited text, with an unchanged neighbourhood
            let Some(x2) = l2.iter().find(|l| (l.span.start, l.span.end) == (ns, ne) && ident(l) == ident(x)) else { continue };
            if ref_context(&doc2, x2, true) != gctxs[k] {
                continue; // premise not met: the edit changed a token within two characters
            }
            nontrivial += 1;
            let mut r = l2.clone();
            back.remove_ignored(&mut r, &doc2);
            if r.iter().any(|l| l == x2) {
                let cls = if es.iter().any(|e| e.insert.contains('"')) { "after-edit-with-quotes" } else { "after-edit" };
                push(format!("ignored-lint-reappears:{cls}"), case(json!([format!("ignore lint {k}"), es.iter().map(|e| e.name).collect::<Vec<_>>(), "re-lint edited text"])), json!({"ignored": lint_json(x), "edited_text": text2, "reappeared": lint_json(x2)}), viols);
            }
        }
    }
    // two ignore lists merged (what import_ignored_lints does on an instance that already has
    // entries): in BOTH directions the union must hide both lints
    for a in 0..lints.len().min(4) {
        for b in 0..lints.len().min(4) {
            if a == b {
                continue;
            }
            traces += 1;
            transitions += 3;
            let mut own = IgnoredLints::new();
            own.ignore_lint(&lints[a], &doc);
            let mut other = IgnoredLints::new();
            other.ignore_lint(&lints[b], &doc);
            let Ok(imported) = serde_json::from_str::<IgnoredLints>(&serde_json::to_string(&other).unwrap()) else { continue };
            own.append(imported);
            let mut rest = lints.clone();
            own.remove_ignored(&mut rest, &doc);
            for j in [a, b] {
                if rest.iter().any(|l| l == &lints[j]) {
                    let which = if j == a { "own-entry-lost" } else { "imported-entry-lost" };
                    push(format!("merged-ignore-lists:{which}"), case(json!([format!("instance 1 ignores lint {a}"), format!("instance 2 ignores lint {b}"), "instance 1 imports the exported list of instance 2"])), json!({"still_reported": lint_json(&lints[j])}), viols);
                }
            }
        }
    }
    // a SMALLER list absorbing a LARGER one and vice versa: all three lints hidden afterwards
    if lints.len() >= 3 {
        for (own_idx, other_idx) in [(vec![0usize], vec![1usize, 2]), (vec![1, 2], vec![0]), (vec![2], vec![0, 1])] {
            traces += 1;
            transitions += 4;
            let mut own = IgnoredLints::new();
            for i in &own_idx {
                own.ignore_lint(&lints[*i], &doc);
            }
            let mut other = IgnoredLints::new();
            for i in &other_idx {
                other.ignore_lint(&lints[*i], &doc);
            }
            let Ok(imported) = serde_json::from_str::<IgnoredLints>(&serde_json::to_string(&other).unwrap()) else { continue };
            own.append(imported);
            let mut rest = lints.clone();
            own.remove_ignored(&mut rest, &doc);
            for j in 0..3 {
                if rest.iter().any(|l| l == &lints[j]) {
                    let which = if own_idx.contains(&j) { "own-entry-lost" } else { "imported-entry-lost" };
                    push(format!("merged-ignore-lists:{which}:lists-of-different-size"), case(json!([format!("instance 1 ignores lints {own_idx:?}"), format!("instance 2 ignores lints {other_idx:?}"), "instance 1 imports the exported list of instance 2"])), json!({"still_reported": lint_json(&lints[j])}), viols);
                }
            }
        }
    }
    // pairs: ignoring two lints hides both and nothing else that differs from both
    if lints.len() >= 3 {
        for a in 0..lints.len().min(4) {
            for b in a + 1..lints.len().min(4) {
                traces += 1;
                transitions += 2;
                let mut ig = IgnoredLints::new();
                ig.ignore_lint(&lints[a], &doc);
                ig.ignore_lint(&lints[b], &doc);
                let mut rest = lints.clone();
                ig.remove_ignored(&mut rest, &doc);
                for (j, y) in lints.iter().enumerate() {
                    let same_a = ident(y) == ident(&lints[a]) && ctxs[j] == ctxs[a];
                    let same_b = ident(y) == ident(&lints[b]) && ctxs[j] == ctxs[b];
                    let present = rest.iter().any(|l| l == y);
                    if (j == a || j == b) && present {
                        push("ignored-lint-still-reported:pair".into(), case(json!([format!("ignore lints {a} and {b}")])), json!({"lint": lint_json(y)}), viols);
                    }
                    if !same_a && !same_b && !present {
                        push("other-lint-hidden:pair".into(), case(json!([format!("ignore lints {a} and {b}")])), json!({"hidden": lint_json(y)}), viols);
                    }
                }
            }
        }
    }
    (transitions, traces, nontrivial)
}

pub fn run(tier: Tier) -> i32 {
    let mut report = Report::new("C14", tier, "model_checking");
    let docs = documents(tier);
    let n = docs.len() as u64;
    let dict = FstDictionary::curated();
    let res = par_chunks(n, 12, ncpu(), |s, e| {
        let mut cx = Ctx { dict: dict.clone(), group: all_on(Dialect::American, dict.clone()), nonce: 0 };
        let mut viols = vec![];
        let mut tr = 0u64;
        let mut traces = 0u64;
        let mut nt = 0u64;
        let mut used = 0u64;
        for i in s..e {
            let (t, md, light) = &docs[i as usize];
            match catch(|| check_doc(&mut cx, t, *md, *light, tier, &mut viols)) {
                Ok((a, b, c)) => {
                    tr += a;
                    traces += b;
                    nt += c;
                    if b > 0 {
                        used += 1;
                    }
                }
                Err(_) => {
                    cx = Ctx { dict: dict.clone(), group: all_on(Dialect::American, dict.clone()), nonce: 0 };
                }
            }
        }
        (tr, traces, nt, used, viols)
    });
    let mut tr = 0;
    let mut traces = 0;
    let mut nt = 0;
    let mut used = 0;
    for (a, b, c, u, vs) in res {
        tr += a;
        traces += b;
        nt += c;
        used += u;
        for v in vs {
            report.violation(v);
        }
    }
    report.set("documents_offered", n);
    report.set("documents_with_two_or_more_lints", used);
    report.set("states", traces);
    report.set("transitions", tr);
    report.set("traces_validated_against_impl", traces);
    report.set("histories_where_the_stay-ignored_or_only-that-lint_clause_was_decisive", nt);
    report.outcomes.insert(nt);
    report.outcomes.insert(traces);
    report.set("exhaustive", true);
    report.sample(json!({"engine":"E2","object":"IgnoredLints","text":"I saw teh cat and then teh dog near teh cat.","history":["ignore lint 0",["prepend-quoted-sentence"],"re-lint edited text"]}));
    report.assume("documents: constructed near-identical-lint texts plus harvested seeds with >= 2 lints; edits from a fixed menu of 11 (depth 1; append-then-prepend compositions in the thorough tier); premise 'tokens within two characters untouched' is checked by comparing reference contexts, not assumed");
    report.assume("every trace is an execution of the real IgnoredLints / LintGroup / Document code");
    report.finish()
}
