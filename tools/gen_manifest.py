#!/usr/bin/env python3
"""Generate /verif/MANIFEST.json from the table below (kept in one place so it stays valid)."""
import json, sys
props = [json.loads(l) for l in open('/verif/properties.jsonl')]
E1 = "bounded exhaustive enumeration of inputs (explicit-state exploration of the real code)"
C = {}
def add(pid, cat, tech, text, note, ref, engine):
    C[pid] = dict(property_id=pid,
        quick_cmd=f"./check {pid} --tier quick",
        thorough_cmd=f"./check {pid} --tier thorough",
        evidence_file=f"/verif/evidence/{pid}.json",
        replay_cmd_template=f"./check {pid} --replay {{path}}",
        engine=engine,
        level_claimed=dict(category=cat, text=text, design_ref=ref),
        level_note=note, technique=tech)

add("C01","exploration","exhaustive enumeration of all inputs over sharp per-front-end alphabets up to a length bound, in isolated worker processes with hang watchdog",
    "Every string over a per-front-end alphabet up to a length bound (G1), every pair of rule-trigger words (G2) and every bounded deviation (prefix, suffix, window, deletion) of ~2300 harvested rule-reaching sentences (G3), through all 36 front-end compositions with all rules on: no panic, no abort, no hang. This is the right level because the property quantifies over all inputs and the defects are small-scope (all five crashes/hangs found needed <= 5 symbols).",
    "inputs outside the alphabets and longer than the bounds; the growth clause is decided by termination within a hang budget on every enumerated input plus pumped inputs, not by a proof of a complexity bound; deciding build has the shipped semantics (no debug assertions)", "§4.C01", "E1")
add("C02","exploration","exhaustive enumeration of inputs; token-stream invariants evaluated in every state",
    "Same enumeration as C01; on Parser::parse output and on Document tokens: bounds, order, disjointness, zero-width kinds, exact tiling for plain English, lexical shape by kind from an independent table, quote twin symmetry.",
    "bounds of the enumeration; shape table is the harness's reading of the statement (lenient where the statement is silent)", "§4.C02", "E1")
add("C03","exploration","exhaustive enumeration of inputs and of (text, span, suggestion) triples against a reference splice",
    "Every lint of every enumerated document (first pass, chunk-cache pass and rebased behind a multi-byte paragraph on one long-lived LintGroup) has a span inside the text and every suggestion equals the reference splice; the edit primitive is checked on all triples over a small alphabet.",
    "bounds of the enumeration; reference splice is 6 lines of Vec<char> code", "§4.C03", "E1")
add("C13","exploration","exhaustive enumeration of all span lists up to a size bound plus real lint lists",
    "All lists of <= K lints over all spans on P positions (zero-width, nested, touching, equal) and the real lint lists of every prefix of every seed sentence: output is a sub-list, pairwise disjoint, every dropped lint starts inside a kept one, one-pass fix is order-independent.",
    "K and P bounds (4/4 quick, 5/5 thorough)", "§4.C13", "E1")
add("C17","exploration","exhaustive enumeration of integers and suffix spellings",
    "Every integer below 10^5 (10^6 thorough) and every three-digit ending behind prefixes of every digit length up to 2^53-1, x 4 suffixes x 4 case variants x sentence frames, against the English ordinal rule on the decimal string.",
    "integers between the exhaustive range and 2^53 only through the structured family", "§4.C17", "E1")
add("C18","exploration","exhaustive enumeration of token sequences and of all cased Unicode letters",
    "All sequences of <= L tokens from a 20-token alphabet, every seed sentence, and every cased Unicode letter at the start/inside/end of a word: same length, only case changes, first word capitalised, idempotent.",
    "token alphabet and length bound", "§4.C18", "E1")
add("C19","model_checking","explicit-state exploration of all record lists x all splits into append sessions on the real Stats/Linter code",
    "All record lists up to a length bound over an alphabet of awkward records, all ways of cutting them into <= 3 append sessions, on the real Stats::write/read/summarize and on harper_wasm::Linter's stats methods; each trace is an execution of the implementation.",
    "record alphabet and list length bound; file-level append in harper-ls save_stats is covered through the same Stats::write on a growing buffer", "§4.C19", "E2")

add("C05","model_checking","explicit-state exploration of operation histories on one long-lived LintGroup, each lint step compared with a freshly built linter; thread and process replication of a fixed menu",
    "All sequences up to a depth bound over ~25 operations (lint one of 8 collision-forcing documents as plain text or Markdown, switch one of 4 rules on/off/unset, and in the thorough tier a 10050-clause flood that forces cache eviction) on one real LintGroup used the way harper-ls and harper.js use it; every lint step must equal a fresh LintGroup's output including order. The same menu is run on 2 and 3 concurrent OS threads and in separate processes and the serialised outputs compared.",
    "depth bound; the document menu; harper-core has no lock/atomic of its own, so there is no interleaving to enumerate (threads are replicated, not scheduled)", "§4.C05", "E2")
add("C06","exploration","exhaustive enumeration of the whole curated dictionary x dialects x context frames, and of all short letter strings",
    "Every one of the ~130k dictionary words in every dialect it belongs to, in 7 context frames (plus Capitalised/UPPER forms of lower-case entries), must not be flagged; every a-z string up to length 3 (4 thorough) and every single-deletion variant of short words that the dictionary lacks must be flagged exactly once with the exact span, all suggestions being dictionary words of the active dialect.",
    "context frames replace 'random sentences'; non-words bounded by length", "§4.C06", "E1")
add("C11","model_checking","explicit-state exploration of configurations (single and pairwise deviations from three bases) on one long-lived LintGroup against per-rule reference runs; exhaustive overlay algebra on 3 keys",
    "For a covering set of documents on which 289 of 290 rule keys fire: under every single-rule deviation from all-off, all-on and curated, every co-firing pair in isolation and removed, and two 2-partitions, LintGroup::lint equals the multiset union of what each enabled rule produces alone (one long-lived group, configurations switched in place so stale cache entries would show). The overlay helpers (merge_from, fill_with_curated, clear, set_if_unset, unset, JSON and LSP-settings round trip) are checked on all 64 x 64 configurations over 2 real keys + 1 unknown key x {absent, null, true, false}.",
    "not all 2^290 assignments: additivity per rule makes single and pairwise deviations the generating set; document cover", "§4.C11", "E2")
add("C12","exploration","exhaustive enumeration of (paragraph, rest) pairs with a differential oracle",
    "All pairs of a quote-free complete paragraph P (harvested sentences + condensing-heavy ones) and a rest D (all short strings over the plain alphabet, all seeds, seed prefixes, word x condensing-trigger pairs): lints(P+D) == lints(P) + shifted lints(D) as multisets, all rules on, cache defeated.",
    "bounds on |P| and |D| sets; plain English only (the statement's premise)", "§4.C12", "E1")
add("C15","exploration","small-scope exhaustive enumeration of dictionaries and queries against a set model and brute-force Levenshtein",
    "Every subset of size <= 2 (3 thorough) of the 84 strings over {a,b,A,'} of length 1-3, built as FST, mutable and every two-child merged dictionary, queried with ~100 strings: membership, exact membership, metadata, canonical spelling, by-id lookup and str variants against a set model; fuzzy search for bounds 0-3 x caps {1,2,100}: member, true distance, within bound, sorted, capped, complete for lower-case queries. Curated scale: dictionary words, upper-cased and deletion variants on FST vs mutable; fuzzy sets vs brute force.",
    "small alphabet/size bound; edit_distance is reached through fuzzy_match (crate-private)", "§4.C15", "E1")
add("C16","model_checking","explicit-state exploration of call histories on the real harper_wasm::Linter against a reference model and a shadow instance",
    "All call sequences up to a depth bound over 18 operations (lint 6 texts in 2 languages, ignore a returned lint, apply a suggestion, import words, migrate everything to a new Linter through export/import, export-clear-import the ignore list, set configuration) on the natively compiled harper_wasm::Linter. Every lint result is checked for bounds, disjointness, problem text, JSON round trips, equality with a fresh core pipeline (minus exactly the ignored lints) and equality with a shadow instance that never exported/imported.",
    "operation alphabet and depth; JsValue-returning methods are wasm-only and left out", "§4.C16", "E2")

add("C14","model_checking","explicit-state exploration of ignore/edit/export histories on the real IgnoredLints against a reference notion of 'neighbourhood'",
    "For ~3000 documents (constructed near-identical-lint texts, every harvested seed, joined seeds): for every lint k (and every pair among the first four): ignore it; the lint is gone, every lint that differs in kind/message/suggestions or in the tokens within two characters is still there; for every edit of a menu of 11 (prepend word/sentence/quoted sentence/lone quote/paragraph, append, change a word before/after, change the nearest token outside the neighbourhood) whose premise holds (reference contexts equal), the corresponding lint of the edited text stays hidden; a serde_json round trip of the list changes nothing.",
    "edit menu (depth 1; append-then-prepend compositions in the thorough tier); documents with at least two lints", "§4.C14", "E2")

add("C08","exploration","exhaustive enumeration of texts x spans for the position conversion and of diagnostics x in-range positions x suggestions through the real DocumentState, against a reference LSP client",
    "(a) every text over {a, é, astral, tab, LF, CRLF, combining sequence} up to length 5 (6 thorough) x every span: span_to_range equals a reference LSP position model and range_to_span inverts it; (b) ~400 (all ~2300 thorough) harvested sentences x 12 placements (first/middle/last line, LF/CRLF, with/without trailing newline, behind astral characters) x {plaintext, markdown} through harper-ls's DocumentState: every diagnostic range covers exactly the lint, code actions requested at every character position inside the range contain that lint's fixes, every TextEdit applied by a reference client equals Suggestion::apply.",
    "no lone CR; no positions inside surrogate pairs; the empty line after a trailing newline is excluded (deliberate quirk pinned by harper-ls's own issue_250 test)", "§4.C08", "E1")
add("C09","model_checking","stateless exploration of the real server under a controlled executor: all applicable message histories up to a depth, and for back-to-back batches all schedules of external events within a deviation bound",
    "The real Backend behind the real tower-lsp router is driven in-process: the harness polls every handler future by hand (woken tasks in FIFO order as FuturesUnordered does), holds every workspace/configuration answer, turns every blocking-pool file-I/O completion into an explicit event (single gated blocking thread) and controls admission (at most 4 in flight). Sequential histories: every applicable sequence up to depth 3 (4 thorough) over 14 operations on a saved and an unsaved document. Concurrent batches: every ordered pair (selected triples thorough) after several prefixes, every schedule with <= 1 (2) deviations from first-come-first-served delivery, one more for same-document pairs. Oracle at quiescence: last publishDiagnostics per open document == fresh reference lint of the client's newest text under the current dictionaries and configuration; closed/deleted documents empty. A failing schedule is replayed and must reproduce with the identical event trace before it is reported.",
    "deviation and depth bounds; only external events are reordered (each explored schedule is one the real server can exhibit); HashMap iteration order inside the server is not owned (replay divergences are counted and skipped, never reported)", "§4.C09", "E3")

add("C07","model_checking","stateless exploration of add-word/edit/restart histories on the real server with enumeration of every crash point and torn write of the dictionary save path; explicit-state exploration of import sequences on harper_wasm::Linter",
    "All applicable histories up to depth 3 (4 thorough) over {open, change, HarperAddToUserDict, HarperAddToFileDict with 5 Unicode words on two documents, server restart} on the real Backend: after every step the real load_dict of each dictionary file equals the set of words added, and the diagnostics of every open document equal a fresh reference lint (file words only in their file). For every history that ends in an add command the save is executed one I/O completion at a time; the on-disk image after every completion, and every byte cut of every in-place append (same inode), is recovered with the real loader: no acknowledged word lost, nothing but (a prefix of) the word in flight gained. harper_wasm::Linter: all import_words sequences up to length 2 (3) over 8 words incl. case variants.",
    "crash = process death between/inside write calls of the blocking pool; power-loss reordering is outside the bound; word alphabet", "§4.C07", "E3")

add("C10","exploration","exhaustive enumeration of library inputs / API calls / LSP sessions, each executed under a syscall monitor (strace), plus breadth-first reachability over the resolved dependency graph",
    "Three workloads run under strace -f: ~10 000 library cases (harvested seeds through all 36 front-end compositions, JS-facing API calls), every applicable in-process server session up to depth 2 (3 thorough) followed by HarperRecordLint and shutdown with a configured statsPath plus four documents whose URIs carry encoded path separators and parent-directory segments, and the shipped harper-ls binary over stdio (9 sessions x statsPath on/off) and TCP. The syscall log must contain no network socket/connect/bind/send other than the loopback listener, no resolver-configuration read, and no file creation/rename/unlink/mkdir outside the configured user dictionary, file-dictionary directory and statistics file (paths normalised). The cargo metadata graph from all shipped crates is searched for ~80 network/TLS/DNS/telemetry crates.",
    "the dependency half is only as strong as the deny-list; HarperOpen excluded (as the property says); TCP mode skipped if port 4000 is taken", "§4.C10", "E3")

add("C04","exploration","exhaustive enumeration of generated files (all sequences of language segments up to a length bound x indentation x line ending) whose prose positions are known by construction",
    "For each of 35 front-ends with a segment table (22 comment languages, the harper-ls compositions, Markdown x2 + isolate, git-commit, HTML, Typst, Literate Haskell): every sequence of <= 3 (4 thorough) segments out of 6-11 kinds (code, code with a string literal holding sentinels and multi-byte text, line/block/doc comments, ignore-marker comments, shebang, Go directive, blank; markup: paragraph, heading, list, emphasis, link, table, inline code, math, fenced/indented code, raw HTML, comment, script, style, bird-track and LaTeX code) x 3 indentations x LF/CRLF. Every prose word must be a Word token at exactly its char span; no Word/Number/Hostname/Email token may overlap a non-prose region or a sentinel; no other word may be offered.",
    "the segment tables are the harness's model of each language; documented coarse behaviours are premises (an ignore marker drops the whole whitespace-merged comment block; ignore_link_title; IsolateEnglish may drop prose; git strips everything after the first #)", "§4.C04", "E1")

claimed = [C[k] for k in sorted(C)]
na = [dict(property_id=p["id"], reason="check under construction in this build phase; not claimed until its command exists and passes on the unchanged tree")
      for p in props if p["id"] not in C]
m = dict(version=1,
  setup_cmd="./check --setup",
  hooks=dict(guard="harper_verif",
             enable="no source hook is needed: every seam is public API, #[path] inclusion of harper-ls's modules into the harness crate, the LSP wire or the syscall boundary; checks build /repo's working tree as path dependencies",
             baseline_off_cmd="cd /repo && RUSTUP_TOOLCHAIN=stable-x86_64-unknown-linux-gnu cargo nextest run --workspace --no-fail-fast --offline",
             source_commits=[], add_only=True),
  engines=[dict(name="E1 text-space explorer", path="/verif/harness/hv/src/{pool,spaces,sweep,small,c04,c06,c08,c12,c15}.rs", serves_properties=[k for k in sorted(C) if C[k]["engine"]=="E1"], kind_free_text="exhaustive enumeration of finite input spaces over the real parsers/linters in watchdog-supervised worker processes"),
           dict(name="E3 language-server explorer", path="/verif/harness/hv/src/{e3,c07,c09}.rs", serves_properties=[k for k in sorted(C) if C[k]["engine"]=="E3"], kind_free_text="controlled executor over the unmodified harper-ls Backend and tower-lsp router: hand-polled handler futures, held client answers, gated blocking pool, deviation-bounded schedule enumeration with replay"),
           dict(name="E2 history explorer", path="/verif/harness/hv/src/{e2,c11,c14,c19}.rs", serves_properties=[k for k in sorted(C) if C[k]["engine"]=="E2"], kind_free_text="breadth-first enumeration of operation histories on long-lived real objects against reference models")],
  checks=claimed, not_applicable=na,
  notes="Exit codes: 0 held (open known findings printed as KNOWN-FINDING lines), 1 violation (VIOLATION lines), 2 machinery failure. Known findings: /verif/known_findings.txt.")
json.dump(m, open('/verif/MANIFEST.json','w'), indent=1)
print("claimed", sorted(C))
