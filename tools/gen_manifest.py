#!/usr/bin/env python3
"""Generate /verif/MANIFEST.json from the table below (kept in one place so it stays valid)."""
import json, sys
props = [json.loads(l) for l in open('/verif/properties.jsonl')]
E1 = "bounded exhaustive enumeration of inputs (explicit-state exploration of the real code)"
C = {}
def add(pid, cat, tech, text, note, ref, engine):
    C[pid] = dict(property_id=pid,
        quick_cmd=f"./check {pid} --tier quick",
        thorough_cmd=f"./check {pid} --tier thorough",
        evidence_file=f"/verif/evidence/{pid}.json",
        replay_cmd_template=f"./check {pid} --replay {{path}}",
        engine=engine,
        level_claimed=dict(category=cat, text=text, design_ref=ref),
        level_note=note, technique=tech)

add("C01","exploration","exhaustive enumeration of all inputs over sharp per-front-end alphabets up to a length bound, in isolated worker processes with hang watchdog",
    "Every string over a per-front-end alphabet up to a length bound (G1), every pair of rule-trigger words (G2) and every bounded deviation (prefix, suffix, window, deletion) of ~2300 harvested rule-reaching sentences (G3), through all 36 front-end compositions with all rules on: no panic, no abort, no hang. This is the right level because the property quantifies over all inputs and the defects are small-scope (all five crashes/hangs found needed <= 5 symbols).",
    "inputs outside the alphabets and longer than the bounds; the growth clause is decided by termination within a hang budget on every enumerated input plus pumped inputs, not by a proof of a complexity bound; deciding build has the shipped semantics (no debug assertions)", "§4.C01", "E1")
add("C02","exploration","exhaustive enumeration of inputs; token-stream invariants evaluated in every state",
    "Same enumeration as C01; on Parser::parse output and on Document tokens: bounds, order, disjointness, zero-width kinds, exact tiling for plain English, lexical shape by kind from an independent table, quote twin symmetry.",
    "bounds of the enumeration; shape table is the harness's reading of the statement (lenient where the statement is silent)", "§4.C02", "E1")
add("C03","exploration","exhaustive enumeration of inputs and of (text, span, suggestion) triples against a reference splice",
    "Every lint of every enumerated document (first pass, chunk-cache pass and rebased behind a multi-byte paragraph on one long-lived LintGroup) has a span inside the text and every suggestion equals the reference splice; the edit primitive is checked on all triples over a small alphabet.",
    "bounds of the enumeration; reference splice is 6 lines of Vec<char> code", "§4.C03", "E1")
add("C13","exploration","exhaustive enumeration of all span lists up to a size bound plus real lint lists",
    "All lists of <= K lints over all spans on P positions (zero-width, nested, touching, equal) and the real lint lists of every prefix of every seed sentence: output is a sub-list, pairwise disjoint, every dropped lint starts inside a kept one, one-pass fix is order-independent.",
    "K and P bounds (4/4 quick, 5/5 thorough)", "§4.C13", "E1")
add("C17","exploration","exhaustive enumeration of integers and suffix spellings",
    "Every integer below 10^5 (10^6 thorough) and every three-digit ending behind prefixes of every digit length up to 2^53-1, x 4 suffixes x 4 case variants x sentence frames, against the English ordinal rule on the decimal string.",
    "integers between the exhaustive range and 2^53 only through the structured family", "§4.C17", "E1")
add("C18","exploration","exhaustive enumeration of token sequences and of all cased Unicode letters",
    "All sequences of <= L tokens from a 20-token alphabet, every seed sentence, and every cased Unicode letter at the start/inside/end of a word: same length, only case changes, first word capitalised, idempotent.",
    "token alphabet and length bound", "§4.C18", "E1")
add("C19","model_checking","explicit-state exploration of all record lists x all splits into append sessions on the real Stats/Linter code",
    "All record lists up to a length bound over an alphabet of awkward records, all ways of cutting them into <= 3 append sessions, on the real Stats::write/read/summarize and on harper_wasm::Linter's stats methods; each trace is an execution of the implementation.",
    "record alphabet and list length bound; file-level append in harper-ls save_stats is covered through the same Stats::write on a growing buffer", "§4.C19", "E2")

claimed = [C[k] for k in sorted(C)]
na = [dict(property_id=p["id"], reason="check under construction in this build phase; not claimed until its command exists and passes on the unchanged tree")
      for p in props if p["id"] not in C]
m = dict(version=1,
  setup_cmd="./check --setup",
  hooks=dict(guard="harper_verif",
             enable="no source hook is needed: every seam is public API, #[path] inclusion of harper-ls's modules into the harness crate, the LSP wire or the syscall boundary; checks build /repo's working tree as path dependencies",
             baseline_off_cmd="cd /repo && RUSTUP_TOOLCHAIN=stable-x86_64-unknown-linux-gnu cargo nextest run --workspace --no-fail-fast --offline",
             source_commits=[], add_only=True),
  engines=[dict(name="E1 text-space explorer", path="/verif/harness/hv/src/{pool,spaces,sweep,small}.rs", serves_properties=[k for k in sorted(C) if C[k]["engine"]=="E1"], kind_free_text="exhaustive enumeration of finite input spaces over the real parsers/linters in watchdog-supervised worker processes"),
           dict(name="E2 history explorer", path="/verif/harness/hv/src/c19.rs", serves_properties=[k for k in sorted(C) if C[k]["engine"]=="E2"], kind_free_text="breadth-first enumeration of operation histories on long-lived real objects against reference models")],
  checks=claimed, not_applicable=na,
  notes="Exit codes: 0 held (open known findings printed as KNOWN-FINDING lines), 1 violation (VIOLATION lines), 2 machinery failure. Known findings: /verif/known_findings.txt.")
json.dump(m, open('/verif/MANIFEST.json','w'), indent=1)
print("claimed", sorted(C))
