#!/usr/bin/env bash
# Confirm a seeded change independently: demo passes without it, fails with it, suite passes with it.
# usage: seedcheck.sh <ID> <k>   (reads /tmp/seeded_out/<ID>/{change,demo}_<k>.diff)
set -u
ID=$1; K=$2
OUT=/tmp/seeded_out/$ID
W=/tmp/wt/verify-$ID-$K
LOG=$OUT/verify_$K.txt
export RUSTUP_TOOLCHAIN=stable-x86_64-unknown-linux-gnu CARGO_NET_OFFLINE=true
export CARGO_TARGET_DIR=${SEEDCHECK_TARGET:-/tmp/wt/target-verify}
: > $LOG
git -C /repo worktree remove --force $W 2>/dev/null
git -C /repo worktree add -q --detach $W HEAD || { echo "worktree failed" >> $LOG; exit 2; }
cd $W
if ! git apply $OUT/demo_$K.diff 2>>$LOG; then echo "RESULT demo-does-not-apply" >> $LOG; git -C /repo worktree remove --force $W; exit 1; fi
# find demo test target
F=$(git status --porcelain | awk '{print $2}' | grep -E 'tests/.*\.rs$' | head -1)
if [ -n "$F" ]; then CRATE=$(echo $F | cut -d/ -f1); T=$(basename $F .rs); CMD="cargo test --offline -p $CRATE --test $T"; else CRATE=$(git status --porcelain | awk '{print $2}' | head -1 | cut -d/ -f1); CMD="cargo test --offline -p $CRATE"; fi
echo "demo cmd: $CMD" >> $LOG
$CMD >> $LOG.demo0 2>&1; R0=$?
echo "demo without change: exit $R0" >> $LOG
if ! git apply $OUT/change_$K.diff 2>>$LOG; then echo "RESULT change-does-not-apply" >> $LOG; cd /; git -C /repo worktree remove --force $W; exit 1; fi
$CMD >> $LOG.demo1 2>&1; R1=$?
echo "demo with change: exit $R1" >> $LOG
git apply -R $OUT/demo_$K.diff
cargo nextest run --workspace --no-fail-fast --offline > $LOG.suite 2>&1; R2=$?
grep -E "Summary|FAIL " $LOG.suite | tail -5 >> $LOG
echo "suite with change: exit $R2" >> $LOG
if [ $R0 -eq 0 ] && [ $R1 -ne 0 ] && [ $R2 -eq 0 ]; then echo "RESULT confirmed" >> $LOG; else echo "RESULT not-confirmed" >> $LOG; fi
cd /
git -C /repo worktree remove --force $W
