#!/usr/bin/env bash
# usage: seedqueue.sh ID:k ID:k ...   (sequential; waits for any running seedcheck first)
while pgrep -f seedcheck.sh >/dev/null; do sleep 10; done
for item in "$@"; do /verif/tools/seedcheck.sh ${item%%:*} ${item##*:}; done
