#!/usr/bin/env python3
"""Copy confirmed seeded changes from /tmp/seeded_out into /verif/seeded/<ID>-<k>/."""
import os, re, json, shutil, glob, sys
DET = json.load(open('/verif/seeded/detected.json')) if os.path.exists('/verif/seeded/detected.json') else {}
for d in sorted([x for x in glob.glob('/tmp/seeded_out/*') if re.search(r'/(R\d)?C\d\d$', x)]):
    pid = os.path.basename(d)
    for v in sorted(glob.glob(f'{d}/verify_*.txt')):
        k = re.search(r'verify_(\d+)\.txt$', v).group(1)
        log = open(v).read()
        if 'RESULT confirmed' not in log:
            print('not confirmed', pid, k); continue
        # later rounds (directories R2Cxx, R3Cxx, R4Cxx) are numbered on from the earlier rounds
        # that exist for the same property: two seeds per round
        if pid[0] == 'R':
            prop = pid[2:]
            rnd = int(pid[1])
            earlier = 1 + sum(1 for r in range(2, rnd) if os.path.isdir(f'/tmp/seeded_out/R{r}{prop}'))
            key = f'{prop}-{int(k) + 2 * earlier}'
        else:
            key = f'{pid}-{k}'
            prop = pid
        out = f'/verif/seeded/{key}'
        os.makedirs(out, exist_ok=True)
        shutil.copy(f'{d}/change_{k}.diff', f'{out}/patch.diff')
        shutil.copy(f'{d}/demo_{k}.diff', f'{out}/demo.diff')
        notes = open(f'{d}/notes_{k}.md').read() if os.path.exists(f'{d}/notes_{k}.md') else ''
        open(f'{out}/notes.md','w').write(notes)
        meta = dict(property=prop, seed=key,
            origin='fresh sub-agent given only the property record and a scratch worktree',
            needs_to_manifest=(DET.get(key, {}).get('needs') or notes[:600]),
            confirmed_by='tools/seedcheck.sh in a scratch worktree of /repo HEAD: demo passes without the change, fails with it, full nextest suite (921 tests) passes with the change alone',
            confirmation_log=log.strip().splitlines(),
            detected_by=DET.get(key, {}).get('detected_by', 'not yet run'),
            verdict=DET.get(key, {}).get('verdict', ''))
        json.dump(meta, open(f'{out}/meta.json','w'), indent=1)
        print('kept', key)
