#!/usr/bin/env bash
# Apply every kept seed to /repo in turn, run its property's quick check, undo. Writes seeded/matrix.txt.
# usage: tools/seedmatrix.sh [seed-dir-name ...]
cd /verif
OUT=/verif/seeded/matrix.txt
[ $# -eq 0 ] && : > $OUT
LIST="$@"; [ -z "$LIST" ] && LIST=$(ls -d seeded/C*-* | xargs -n1 basename)
if [ -n "$(git -C /repo status --porcelain --untracked-files=no)" ]; then echo "/repo has local edits" >&2; exit 2; fi
HEAD=$(git -C /repo log --format=%h -1)
for s in $LIST; do
  # `touch /tmp/matrix.pause` holds the run between two seeds (someone else needs /repo)
  while [ -f /tmp/matrix.pause ]; do sleep 5; done
  prop=${s%%-*}
  if ! git -C /repo apply --check /verif/seeded/$s/patch.diff 2>/dev/null; then echo "$s $prop HEAD=$HEAD patch-does-not-apply" >> $OUT; continue; fi
  git -C /repo apply /verif/seeded/$s/patch.diff
  res=$(timeout 1500 ./check $prop 2>&1); rc=$?
  sig=$(echo "$res" | grep -m1 "signature:" | sed 's/^ *signature: //' | cut -c1-90)
  git -C /repo checkout -- . ; git -C /repo clean -fdq harper-core/src harper-ls/src harper-comments/src 2>/dev/null
  case $rc in 1) v=DETECTED;; 0) v=MISSED;; *) v="MACHINERY(exit $rc)";; esac
  echo "$s $prop HEAD=$HEAD $v $sig" >> $OUT
done
