#!/usr/bin/env bash
# Run every claimed check's quick command in turn; print id, exit code, wall time.
cd /verif
for id in $(python3 -c "import json;print(' '.join(c['property_id'] for c in json.load(open('MANIFEST.json'))['checks']))"); do
  t0=$(date +%s.%N)
  timeout 1800 ./check $id --tier ${1:-quick} > /tmp/runall_$id.log 2>&1; rc=$?
  t1=$(date +%s.%N)
  printf "%s exit=%s %.0fs %s\n" $id $rc $(echo "$t1 - $t0" | bc) "$(grep -E '^OK|^VIOLATION|MACHINERY' /tmp/runall_$id.log | head -1 | cut -c1-120)"
done
